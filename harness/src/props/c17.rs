//! C17 — printed records faithfully carry the result rows in every output format (round trip).

use serde::{Deserialize, Serialize};

use sqlgrep::data_model::Row;
use sqlgrep::execution::ResultRow;
use sqlgrep::executor::{OutputFormat, OutputPrinter};
use sqlgrep::model::{Float, Value, ValueType};

use crate::exec::CapPrinter;
use crate::run::{Ctx, Failure, Obs, Property, Tier};
use crate::tape::Tape;
use crate::value::*;

#[derive(Clone, Debug, Serialize, Deserialize)]
pub struct Case {
    pub columns: Vec<String>,
    /// each inner Vec<Vec<V>> is one `print` call (one ResultRow with that many rows)
    pub prints: Vec<Vec<Vec<V>>>,
    /// "text" | "json" | "csv"
    pub format: String,
    pub single_result: bool,
    /// all TEXT values are free of delimiter, quote and line-break characters
    pub delimiter_free: bool,
    /// CSV: the delimiter handed to OutputFormat::CSV (the command line always uses ";", the public API takes any string)
    #[serde(default = "default_delimiter")]
    pub csv_delimiter: String,
}

fn default_delimiter() -> String {
    ";".to_string()
}

pub struct C17;

const NAMES: [&str; 10] = ["a", "b", "count0", "max1", "p0", "t.x", "Name", "x_y", "ts", "input"];
const SAFE_TEXT: [&str; 8] = ["", "abc", "hello world", "ÅÄÖ", "x=1", "中文", "tab\there", "a_b-c/d"];
const NASTY_TEXT: [&str; 12] = ["it's", "say \"hi\"", "back\\slash", "a;b", "a, b", "k: v", "line1\nline2", "cr\rlf", "\u{1}ctl\u{1f}", "😀 emoji", "\u{2028}sep", "', '"];

fn real_elem_type(v: &V) -> Option<ValueType> {
    match v {
        V::Null => None,
        V::Int(_) => Some(ValueType::Int),
        V::Real(_) => Some(ValueType::Float),
        V::Bool(_) => Some(ValueType::Bool),
        V::Text(_) => Some(ValueType::String),
        V::Ts(_) => Some(ValueType::Timestamp),
        V::Iv(_) => Some(ValueType::Interval),
        V::Array(items) => Some(ValueType::Array(Box::new(items.iter().find_map(real_elem_type).unwrap_or(ValueType::Int)))),
    }
}

pub fn to_real(v: &V) -> Value {
    use chrono::TimeZone;
    match v {
        V::Null => Value::Null,
        V::Int(i) => Value::Int(*i),
        V::Real(r) => Value::Float(Float(*r)),
        V::Bool(b) => Value::Bool(*b),
        V::Text(s) => Value::String(s.clone()),
        V::Ts(m) => Value::Timestamp(chrono::Local.timestamp_micros(*m).single().expect("timestamp in range")),
        V::Iv(m) => Value::Interval(chrono::Duration::microseconds(*m)),
        V::Array(items) => {
            let elem = items.iter().find_map(real_elem_type).unwrap_or(ValueType::Int);
            Value::Array(elem, items.iter().map(to_real).collect())
        }
    }
}

fn gen_scalar(t: &mut Tape, kind: usize, nasty: bool) -> V {
    match kind {
        0 => V::Int(match t.draw(8) {
            0 => 0,
            1 => i64::MAX,
            2 => i64::MIN,
            3 => (1i64 << 53) + 1,
            4 => -(1i64 << 53) - 1,
            5 => t.u64() as i64,
            _ => t.range(-1000, 1000),
        }),
        1 => V::Real(match t.draw(12) {
            0 => 0.0,
            1 => -0.0,
            2 => 0.1,
            3 => 1.0 / 3.0,
            4 => f64::MAX,
            5 => f64::MIN_POSITIVE,
            6 => 5e-324,
            7 => 1e21,
            8 => 123456.789012345,
            9 => -2.5,
            _ => {
                let f = f64::from_bits(t.u64());
                if f.is_finite() {
                    f
                } else {
                    1.5
                }
            }
        }),
        2 => V::Bool(t.chance(1, 2)),
        3 => {
            if nasty {
                V::Text(t.pick(&NASTY_TEXT).to_string())
            } else {
                V::Text(t.pick(&SAFE_TEXT).to_string())
            }
        }
        4 => V::Ts(t.range(0, 4_102_444_800) * 1_000_000 + [0, 1000, 999_000, 123_456, 999_999][t.draw(5)]),
        _ => V::Iv(t.range(0, 400_000) * 1_000_000 + [0, 1000, 999_000, 500][t.draw(4)]),
    }
}

fn gen_value(t: &mut Tape, kind: usize, nasty: bool) -> V {
    if t.chance(1, 6) {
        return V::Null;
    }
    if kind == 10 {
        // one column holding INTs and REALs of equal numeric value (the branches of a CASE): equal as values, printed differently
        return match t.draw(7) {
            0 => V::Int(3),
            1 => V::Real(3.0),
            2 => V::Int(0),
            3 => V::Real(0.0),
            4 => V::Real(-0.0),
            5 => V::Int(10),
            _ => V::Real(10.0),
        };
    }
    if kind >= 6 {
        let ek = kind - 6; // array of scalar kind 0..=3
        let n = match t.draw(4) {
            0 => 0,
            1 => 1,
            2 => 2 + t.draw(4),
            _ => 10 + t.draw(31),
        };
        let items: Vec<V> = (0..n).map(|_| if t.chance(1, 8) { V::Null } else { gen_scalar(t, ek, nasty) }).collect();
        return V::Array(items);
    }
    gen_scalar(t, kind, nasty)
}

fn strip_quotes(s: &str) -> &str {
    if s.len() >= 2 && s.starts_with('\'') && s.ends_with('\'') {
        &s[1..s.len() - 1]
    } else {
        s
    }
}

/// Does the printed field carry the value? (text / CSV formats; delimiter-free values)
fn field_matches(v: &V, field: &str) -> Result<(), String> {
    match v {
        V::Null => {
            if field.eq_ignore_ascii_case("null") || field.is_empty() {
                Ok(())
            } else {
                Err(format!("NULL printed as {:?}", field))
            }
        }
        V::Int(i) => {
            if field.parse::<i64>().ok() == Some(*i) {
                Ok(())
            } else {
                Err(format!("INT {} printed as {:?}", i, field))
            }
        }
        V::Real(r) => match field.parse::<f64>() {
            // the text form rounds to a fixed number of decimals: it must still be the nearest such number
            Ok(p) if (p - r).abs() <= 0.005 + r.abs() * 1e-12 || (p - r).abs() <= r.abs() * 1e-9 => Ok(()),
            _ => Err(format!("REAL {:?} printed as {:?}", r, field)),
        },
        V::Bool(b) => {
            if field.eq_ignore_ascii_case(if *b { "true" } else { "false" }) {
                Ok(())
            } else {
                Err(format!("BOOLEAN {} printed as {:?}", b, field))
            }
        }
        V::Text(s) => {
            if strip_quotes(field) == s || field == s {
                Ok(())
            } else {
                Err(format!("TEXT {:?} printed as {:?}", s, field))
            }
        }
        V::Ts(m) => {
            if field == ts_text(*m) {
                Ok(())
            } else {
                Err(format!("TIMESTAMP {} printed as {:?}", ts_text(*m), field))
            }
        }
        V::Iv(m) => {
            if field == iv_text(*m) {
                Ok(())
            } else {
                Err(format!("INTERVAL {} printed as {:?}", iv_text(*m), field))
            }
        }
        // arrays: element separators are the format's own business; every INT/TEXT element must occur in order
        V::Array(items) => {
            let mut pos = 0;
            for it in items {
                let needle = match it {
                    V::Int(i) => i.to_string(),
                    V::Text(s) => s.clone(),
                    V::Bool(b) => b.to_string(),
                    _ => continue,
                };
                match field[pos..].find(&needle) {
                    Some(k) => pos += k + needle.len(),
                    None => return Err(format!("array element {:?} missing (in order) from {:?}", it, field)),
                }
            }
            Ok(())
        }
    }
}

impl Property for C17 {
    type Case = Case;

    fn id(&self) -> &'static str {
        "C17"
    }

    fn rule(&self) -> String {
        "ResultRows built directly (1-6 distinct column names incl. a lone `input`; every type; i64 extremes, |n| > 2^53, finite REALs of every magnitude incl. -0.0 and subnormals; \
         TEXT with quotes, backslashes, control, non-ASCII, delimiter and line-break characters; NULLs; arrays up to 40 elements; timestamps; intervals) printed through the real \
         OutputPrinter into a capturing Printer in text / json / csv, in 1-4 print calls of 0-5 rows (one case in 25: one call with 100-1300 rows), single_result on/off. Oracle: decode the printed records and compare with the rows \
         (JSON exactly; CSV header once + one field per column; text `name: value` pairs in column order). Non-trivial: a row with >= 1 NULL, >= 1 text needing JSON escaping and \
         >= 1 number beyond 2^53 or a REAL with more than 2 fractional digits; distinct by case."
            .to_string()
    }

    fn assumptions(&self) -> Vec<String> {
        vec![
            "the harness's own JSON reader decodes the output (numbers from their literal text with std's correctly rounded parser)".to_string(),
            "TZ=UTC for the text form of timestamps".to_string(),
            "field-level checks of text/CSV only for values free of delimiter, quote and line-break characters, as the property states".to_string(),
        ]
    }

    fn cases(&self, tier: Tier) -> u64 {
        match tier {
            Tier::Quick => 600_000,
            Tier::Thorough => 6_000_000,
        }
    }

    fn tape_len(&self) -> usize {
        600
    }

    fn generate(&self, t: &mut Tape, _ctx: &Ctx) -> Case {
        let format = ["json", "text", "csv"][t.draw(3)].to_string();
        let nasty = format == "json" || t.chance(1, 4);
        let lone_input = t.chance(1, 10);
        let ncols = if lone_input { 1 } else { 1 + t.draw(6) };
        let mut columns: Vec<String> = Vec::new();
        let mut kinds = Vec::new();
        for i in 0..ncols {
            let mut name = if lone_input { "input".to_string() } else { t.pick(&NAMES).to_string() };
            if columns.contains(&name) {
                name = format!("{}{}", name, i);
            }
            columns.push(name);
            kinds.push(if lone_input { if t.chance(1, 6) { 10 } else { 3 } } else { t.draw(11) });
        }
        let nprints = 1 + t.draw(4);
        let mut prints = Vec::new();
        let mut delimiter_free = true;
        // one case in 25 has a print call with hundreds of rows (a result table, not a single followed row)
        let big_call = if t.chance(1, 25) { Some(t.draw(nprints)) } else { None };
        for p in 0..nprints {
            let nrows = match t.draw(9) {
                // an empty result (e.g. an aggregate whose HAVING admits no group yet)
                0 => 0,
                1..=4 => 1,
                5 | 6 => 2,
                _ => 1 + t.draw(5),
            };
            let mut rows = Vec::new();
            for _ in 0..nrows {
                let row: Vec<V> = kinds.iter().map(|k| gen_value(t, *k, nasty)).collect();
                rows.push(row);
            }
            if big_call == Some(p) && !rows.is_empty() {
                let target = 100 + t.draw(1200);
                let base = rows.clone();
                while rows.len() < target {
                    let next = base[rows.len() % base.len()].clone();
                    rows.push(next);
                }
            }
            prints.push(rows);
        }
        for rows in &prints {
            for row in rows {
                for v in row {
                    let mut check = |s: &str| {
                        if NASTY_TEXT.contains(&s) {
                            delimiter_free = false;
                        }
                    };
                    match v {
                        V::Text(s) => check(s),
                        V::Array(items) => {
                            for it in items {
                                if let V::Text(s) = it {
                                    check(s)
                                }
                            }
                        }
                        _ => {}
                    }
                }
            }
        }
        // (no generated value contains any of these delimiters)
        let csv_delimiter = t.pick(&[";", ";", "||", "\t\t", "§", "#|#"]).to_string();
        Case { columns, prints, format, single_result: t.chance(1, 2), delimiter_free, csv_delimiter }
    }

    fn check(&self, case: &Case, _ctx: &Ctx, obs: &mut Obs) -> Result<(), Failure> {
        let format = match case.format.as_str() {
            "json" => OutputFormat::Json,
            "csv" => OutputFormat::CSV(case.csv_delimiter.clone()),
            _ => OutputFormat::Text,
        };
        let printer = CapPrinter { lines: Vec::new(), stop_after: None, running: Default::default() };
        let mut out = OutputPrinter::with_printer(printer, format);
        for rows in &case.prints {
            let rr = ResultRow { data: rows.iter().map(|r| Row::new(r.iter().map(to_real).collect())).collect(), columns: case.columns.clone() };
            out.print(&rr, case.single_result);
        }
        let lines: Vec<String> = out.printer().lines.clone();
        let all_rows: Vec<&Vec<V>> = case.prints.iter().flat_map(|p| p.iter()).collect();

        // the same printer used for one more result with as many columns under other names, in another order
        // (an interactive session prints one statement after the other): its records carry the new names
        if case.format == "json" && case.prints.first().map(|p| !p.is_empty()).unwrap_or(false) {
            obs.label("printer-reused-for-other-columns");
            let renamed: Vec<String> = case.columns.iter().rev().enumerate().map(|(i, c)| format!("{}_{}", c, i)).collect();
            let rows = &case.prints[0];
            let rr = ResultRow { data: rows.iter().map(|r| Row::new(r.iter().map(to_real).collect())).collect(), columns: renamed.clone() };
            let before = lines.len();
            out.print(&rr, case.single_result);
            let extra: Vec<String> = out.printer().lines[before..].iter().filter(|l| !l.is_empty()).cloned().collect();
            let context = format!("a further result with the columns {:?} printed by the same printer gives {:?}", renamed, extra);
            if extra.len() != rows.len() {
                return Err(Failure::new("json: record-count (printer reused)", format!("{} rows but {} records\n  {}", rows.len(), extra.len(), context)));
            }
            for (row, line) in rows.iter().zip(extra.iter()) {
                match parse_json(line) {
                    Ok(J::Obj(items)) => {
                        let keys: Vec<&String> = items.iter().map(|(k, _)| k).collect();
                        if keys != renamed.iter().collect::<Vec<_>>() {
                            return Err(Failure::new("json: keys (printer reused)", format!("keys {:?} but columns {:?}\n  {}", keys, renamed, context)));
                        }
                        for ((_, got), want) in items.iter().zip(row.iter()) {
                            if let Err(e) = json_matches(want, got) {
                                return Err(Failure::new("json: value (printer reused)", format!("{}\n  {}", e, context)));
                            }
                        }
                    }
                    other => return Err(Failure::new("json: invalid-json (printer reused)", format!("record {:?}: {:?}\n  {}", line, other.map(|_| ()), context))),
                }
            }
        }

        // non-triviality
        let mut has_null = false;
        let mut has_escape = false;
        let mut has_big = false;
        for row in &all_rows {
            for v in row.iter() {
                match v {
                    V::Null => has_null = true,
                    V::Text(s) if s.chars().any(|c| c == '"' || c == '\\' || (c as u32) < 0x20) => has_escape = true,
                    V::Int(i) if i.unsigned_abs() > (1u64 << 53) => has_big = true,
                    V::Real(r) if (r * 100.0).fract() != 0.0 => has_big = true,
                    _ => {}
                }
            }
        }
        obs.nontrivial = has_null && has_escape && has_big;
        obs.label(match case.format.as_str() {
            "json" => "json",
            "csv" => "csv",
            _ => "text",
        });
        if case.prints.len() > 1 {
            obs.label("several-prints");
        }
        if case.columns == ["input"] {
            obs.label("lone-input");
        }

        let records: Vec<&String> = lines.iter().filter(|l| !l.is_empty()).collect();
        // a lone empty TEXT could print as an empty line in an implementation that does not quote: not judged
        let ambiguous_empty = case.columns.len() == 1 && all_rows.iter().any(|r| matches!(&r[0], V::Text(s) if s.is_empty()));
        let fail = |sig: &str, msg: String| Err(Failure::new(format!("{}: {}", case.format, sig), format!("{}\n  printed: {:?}", msg, lines)));

        match case.format.as_str() {
            "json" => {
                // a blank line can only be a separator here (a JSON record is never empty)
                if records.len() != all_rows.len() {
                    return fail("record-count", format!("{} rows but {} records", all_rows.len(), records.len()));
                }
                for (row, line) in all_rows.iter().zip(records.iter()) {
                    let parsed = match parse_json(line) {
                        Ok(J::Obj(items)) => items,
                        Ok(other) => return fail("not-an-object", format!("record {:?} is {:?}", line, other)),
                        Err(e) => return fail("invalid-json", format!("record {:?}: {}", line, e)),
                    };
                    let keys: Vec<&String> = parsed.iter().map(|(k, _)| k).collect();
                    if keys != case.columns.iter().collect::<Vec<_>>() {
                        return fail("keys", format!("keys {:?} but columns {:?}", keys, case.columns));
                    }
                    for ((_, got), want) in parsed.iter().zip(row.iter()) {
                        if let Err(e) = json_matches(want, got) {
                            return fail("value", format!("record {:?}: {}", line, e));
                        }
                    }
                }
            }
            "csv" => {
                let header = case.columns.join(&case.csv_delimiter);
                if all_rows.is_empty() {
                    // no record at all: the header precedes the first record, so nothing (or just the header) is fine
                    if lines.iter().any(|l| !l.is_empty() && l != &header) {
                        return fail("record-count", format!("no rows, but printed {:?}", lines));
                    }
                    return Ok(());
                }
                if lines.first() != Some(&header) {
                    return fail("header", format!("first line is not the header {:?}", header));
                }
                // TEXT prints quoted and NULL as a word, so a record is never empty: blank lines are separators
                let recs: Vec<&String> = lines[1..].iter().filter(|l| !l.is_empty()).collect();
                if !ambiguous_empty && recs.len() != all_rows.len() {
                    return fail("record-count", format!("{} rows but {} records after the header", all_rows.len(), recs.len()));
                }
                if case.delimiter_free && !ambiguous_empty {
                    for (row, line) in all_rows.iter().zip(recs.iter()) {
                        let has_array = row.iter().any(|v| matches!(v, V::Array(_)));
                        let fields: Vec<&str> = line.split(case.csv_delimiter.as_str()).collect();
                        if fields.len() != case.columns.len() {
                            return fail("field-count", format!("record {:?} has {} fields for {} columns", line, fields.len(), case.columns.len()));
                        }
                        if !has_array {
                            for (v, f) in row.iter().zip(fields.iter()) {
                                if let Err(e) = field_matches(v, f) {
                                    return fail("field", format!("record {:?}: {}", line, e));
                                }
                            }
                        }
                    }
                }
            }
            _ => {
                let lone_input = case.columns == ["input"];
                if !ambiguous_empty && records.len() != all_rows.len() {
                    return fail("record-count", format!("{} rows but {} records", all_rows.len(), records.len()));
                }
                if case.delimiter_free && !ambiguous_empty {
                    for (row, line) in all_rows.iter().zip(records.iter()) {
                        if lone_input {
                            if let Err(e) = field_matches(&row[0], line) {
                                return fail("lone-input", format!("record {:?}: {}", line, e));
                            }
                            continue;
                        }
                        // `name: value` pairs in column order; values may contain ", " inside arrays, so match names in order
                        let mut rest: &str = line.as_str();
                        for (i, (name, v)) in case.columns.iter().zip(row.iter()).enumerate() {
                            let prefix = format!("{}: ", name);
                            if !rest.starts_with(&prefix) {
                                return fail("pairs", format!("record {:?}: expected `{}` at {:?}", line, prefix, rest));
                            }
                            rest = &rest[prefix.len()..];
                            let end = if i + 1 < case.columns.len() {
                                let next = format!(", {}: ", case.columns[i + 1]);
                                match rest.find(&next) {
                                    Some(k) => k,
                                    None => return fail("pairs", format!("record {:?}: column {} missing", line, case.columns[i + 1])),
                                }
                            } else {
                                rest.len()
                            };
                            let field = &rest[..end];
                            if let Err(e) = field_matches(v, field) {
                                return fail("field", format!("record {:?}: {}", line, e));
                            }
                            rest = if i + 1 < case.columns.len() { &rest[end + 2..] } else { "" };
                        }
                    }
                }
            }
        }
        Ok(())
    }
}
