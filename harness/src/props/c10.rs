//! C10 — follow mode delivers every completed line exactly once, in order.
//!
//! The harness owns the schedule: the `follow_idle` hook fires exactly when the reader has observed
//! EOF without a complete line; the callback performs the writer's next append(s) there.

use std::cell::RefCell;
use std::io::{BufReader, Seek, SeekFrom, Write};
use std::rc::Rc;

use serde::{Deserialize, Serialize};

use sqlgrep::helpers::FollowFileIterator;

use crate::run::{Ctx, Failure, Obs, Property, Tier};
use crate::tape::Tape;

#[derive(Clone, Debug, Serialize, Deserialize)]
pub struct Case {
    pub content: String,
    /// byte offsets (strictly increasing, inside 1..len) at which the reader observes EOF: what lies before
    /// an offset has been appended when the reader polls, what lies after it has not
    pub polls: Vec<usize>,
    /// extra idle polls (EOF observed, nothing new appended) before each segment is appended
    pub idle: Vec<u8>,
    /// how many segments already exist when the reader is constructed
    pub pre: usize,
    pub head: bool,
    pub capacity: usize,
    /// run through the real FollowFileExecutor in a child process (its own seek and 8 KiB reader) instead of the bare iterator
    #[serde(default)]
    pub exec_level: bool,
    /// a long pause of the writer: before segment .0 is appended the reader polls .1 times in vain (in the middle of a line, too)
    #[serde(default)]
    pub long_idle: Option<(usize, u16)>,
    /// executor level only: k > 0 = up to k bytes of the existing content have been read through the handle before
    /// FollowFileExecutor::new gets it (a handle whose cursor is not at 0)
    #[serde(default)]
    pub used_handle: usize,
}

pub struct C10;

const CAPACITIES: [usize; 6] = [1, 2, 3, 5, 16, 8192];
const ALPHABET: [&str; 18] = ["a", "b", "é", "€", "😀", " ", "x", "\r", "1", ";", "\u{feff}", "\u{2028}", "\u{85}", "\0", "\u{c}", "\u{b}", "\t", "\u{fffd}"];

fn boundaries(case: &Case) -> Vec<usize> {
    let mut inner: Vec<usize> = case.polls.iter().copied().filter(|p| *p > 0 && *p < case.content.len()).collect();
    inner.sort();
    inner.dedup();
    let mut b = vec![0];
    b.extend(inner);
    b.push(case.content.len());
    b
}

fn complete_lines(bytes: &[u8]) -> Vec<Vec<u8>> {
    let mut out = Vec::new();
    let mut cur = Vec::new();
    for &b in bytes {
        if b == b'\n' {
            out.push(std::mem::take(&mut cur));
        } else {
            cur.push(b);
        }
    }
    out
}

struct Script {
    file: std::fs::File,
    segments: Vec<Vec<u8>>,
    next: usize,
    idle: Vec<u8>,
    idle_done: u32,
    callbacks: u64,
}

pub fn run_iterator(case: &Case, ctx: &Ctx) -> Result<Vec<String>, String> {
    let bytes = case.content.as_bytes();
    let b = boundaries(case);
    let nseg = b.len() - 1;
    let pre = case.pre.min(nseg);
    let path = ctx.file("follow.txt");
    std::fs::write(&path, &bytes[..b[pre]]).map_err(|e| e.to_string())?;
    let writer = std::fs::OpenOptions::new().append(true).open(&path).map_err(|e| e.to_string())?;
    let file = std::fs::File::open(&path).map_err(|e| e.to_string())?;
    let mut reader = BufReader::with_capacity(case.capacity.max(1), file);
    // what FollowFileExecutor::new does
    if case.head {
        reader.seek(SeekFrom::Start(0)).map_err(|e| e.to_string())?;
    } else {
        reader.seek(SeekFrom::End(0)).map_err(|e| e.to_string())?;
    }
    let segments: Vec<Vec<u8>> = (pre..nseg).map(|i| bytes[b[i]..b[i + 1]].to_vec()).collect();
    let script = Rc::new(RefCell::new(Script { file: writer, segments, next: 0, idle: case.idle.clone(), idle_done: 0, callbacks: 0 }));
    let s2 = script.clone();
    let long_idle = case.long_idle;
    sqlgrep::verif_hooks::set_follow_idle(Some(Box::new(move || {
        let mut s = s2.borrow_mut();
        s.callbacks += 1;
        if s.callbacks > 10_000 {
            return true;
        }
        if s.next >= s.segments.len() {
            // one more idle round after the last append, then the script is exhausted
            let want = match long_idle { Some((seg, n)) if seg == s.next => n as u32, _ => s.idle.get(s.next).copied().unwrap_or(0).min(3) as u32 };
            if s.idle_done < want {
                s.idle_done += 1;
                return false;
            }
            return true;
        }
        let want = match long_idle { Some((seg, n)) if seg == s.next => n as u32, _ => s.idle.get(s.next).copied().unwrap_or(0).min(3) as u32 };
        if s.idle_done < want {
            s.idle_done += 1;
            return false;
        }
        s.idle_done = 0;
        let seg = s.segments[s.next].clone();
        s.next += 1;
        let _ = s.file.write_all(&seg);
        let _ = s.file.flush();
        false
    })));
    let mut delivered = Vec::new();
    let result = crate::run::catch(|| {
        for line in FollowFileIterator::new(reader) {
            delivered.push(line);
            if delivered.len() > 100_000 {
                break;
            }
        }
    });
    sqlgrep::verif_hooks::set_follow_idle(None);
    let appended_all = script.borrow().next >= script.borrow().segments.len();
    result.map_err(|p| format!("panic: {}", p))?;
    if !appended_all {
        // the iterator ended before the writer was done: report what was delivered, the caller compares
    }
    Ok(delivered)
}

fn small_contents(max_bytes: usize) -> Vec<String> {
    // all strings over {a, é, €, \n} with at most max_bytes bytes
    let units = ["a", "é", "€", "\n"];
    let mut out = vec![String::new()];
    let mut frontier = vec![String::new()];
    loop {
        let mut next = Vec::new();
        for s in &frontier {
            for u in units {
                let c = format!("{}{}", s, u);
                if c.len() <= max_bytes {
                    next.push(c);
                }
            }
        }
        if next.is_empty() {
            break;
        }
        out.extend(next.iter().cloned());
        frontier = next;
    }
    out
}

struct EnumSpace {
    contents: Vec<String>,
    /// cumulative number of cases before content i
    offsets: Vec<u64>,
    total: u64,
}

const ENUM_CAPS: [usize; 4] = [1, 2, 5, 8192];

fn enum_space(tier: Tier) -> &'static EnumSpace {
    static QUICK: std::sync::OnceLock<EnumSpace> = std::sync::OnceLock::new();
    static THOROUGH: std::sync::OnceLock<EnumSpace> = std::sync::OnceLock::new();
    let build = |max: usize| {
        let contents: Vec<String> = small_contents(max).into_iter().filter(|c| !c.is_empty()).collect();
        let mut offsets = Vec::new();
        let mut total = 0u64;
        for c in &contents {
            offsets.push(total);
            // poll subsets over len-1 interior positions x capacities x head/no-head
            total += (1u64 << (c.len() - 1)) * ENUM_CAPS.len() as u64 * 2;
        }
        EnumSpace { contents, offsets, total }
    };
    match tier {
        Tier::Quick => QUICK.get_or_init(|| build(5)),
        Tier::Thorough => THOROUGH.get_or_init(|| build(8)),
    }
}

impl Property for C10 {
    type Case = Case;

    fn id(&self) -> &'static str {
        "C10"
    }

    fn rule(&self) -> String {
        "content (0-8 lines over an alphabet with 1-4 byte characters, CR, empty lines, lines longer than the reader buffer, optional unterminated tail; one case in 150: 100-400 KiB in thousands of lines or a few lines of 70 KiB each, buffers up to 100 000 bytes) x the set of byte offsets at which the \
         reader observes EOF (single bytes, inside multi-byte characters, just before / after the newline) x idle polls x reader buffer capacity {1,2,3,5,16,8192} x content pre-existing at start-up \
         x --head on/off (one case in 40 through the real FollowFileExecutor in a child process, half of those with a handle through which existing content has been read before, i.e. whose cursor is not at 0); executed with the follow_idle hook so that appends land exactly at the reader's EOF observations. Oracle: delivered strings = the newline-terminated lines of the content \
         (from byte 0 with --head, else from the first byte appended after start-up), each once, in order, byte-exact; the unterminated tail never. Bounded-exhaustive: every content over {a, é, €, \\n} \
         up to 5 (quick) / 8 (thorough) bytes x every poll subset x 4 capacities x head. Non-trivial: a poll falls strictly inside a line; distinct by case."
            .to_string()
    }

    fn assumptions(&self) -> Vec<String> {
        vec![
            "an append that lands between two reads that did not hit EOF is indistinguishable, for a sequential reader of an append-only file, from one that landed before the first of them; so only the placement of appends relative to the reader's EOF observations matters, which the hook controls".to_string(),
            "file rotation / truncation are outside the property".to_string(),
        ]
    }

    fn cases(&self, tier: Tier) -> u64 {
        match tier {
            Tier::Quick => 180_000,
            Tier::Thorough => 1_500_000,
        }
    }

    fn tape_len(&self) -> usize {
        200
    }

    fn label_floors(&self) -> Vec<(&'static str, f64)> {
        vec![("poll-inside-line", 0.2), ("cut-inside-utf8", 0.03), ("cut-before-newline", 0.03)]
    }

    fn generate(&self, t: &mut Tape, ctx: &Ctx) -> Case {
        let nlines = t.draw(9);
        let mut content = String::new();
        if t.chance(1, 8) {
            // a byte order mark (or another character some readers treat specially) at the very start
            content.push_str(*t.pick(&["\u{feff}", "\u{feff}\u{feff}", "\u{fffe}", "\u{2028}", "\0"]));
        }
        for _ in 0..nlines {
            let len = match t.draw(6) {
                0 => 0,
                1 => 1,
                2 => 20 + t.draw(40),
                _ => 1 + t.draw(8),
            };
            for _ in 0..len {
                content.push_str(*t.pick(&ALPHABET));
            }
            content.push('\n');
        }
        if t.chance(1, 3) {
            // unterminated tail
            for _ in 0..1 + t.draw(5) {
                content.push_str(*t.pick(&ALPHABET));
            }
        }
        // one case in 150: far more than any buffer holds (a backlog or an append of 100-400 KiB), in many lines or a few huge ones
        let big = t.chance(1, 150);
        if big {
            let mut prefix = String::new();
            for _ in 0..t.draw(30) {
                prefix.push_str(*t.pick(&ALPHABET));
            }
            let prefix = prefix.replace('\n', "");
            if t.chance(1, 4) {
                for i in 0..2 + t.draw(3) {
                    content.push_str(&format!("{}{}", i, prefix).repeat(70_000 / (prefix.len() + 1) + 1));
                    content.push('\n');
                }
            } else {
                let n = *t.pick(&[1500usize, 2500, 4000, 8000]);
                for i in 0..n {
                    content.push_str(&format!("{}{}\n", prefix, i));
                }
            }
        }
        let len = content.len();
        let mut polls = Vec::new();
        if len > 1 {
            let n = match t.draw(4) {
                0 => 0,
                1 => 1,
                2 => 1 + t.draw(4),
                _ => 1 + t.draw(len.min(24)),
            };
            for _ in 0..n {
                let mut p = 1 + t.draw(len - 1);
                if ctx.excluded("c10_utf8_split") {
                    while !content.is_char_boundary(p) {
                        p -= 1;
                    }
                }
                if p > 0 && p < len {
                    polls.push(p);
                }
            }
            polls.sort();
            polls.dedup();
        }
        let head = t.chance(1, 2);
        let nseg = polls.len() + 1;
        let mut pre = match t.draw(3) {
            0 => 0,
            1 => t.draw(nseg + 1),
            _ => 0,
        };
        let exec_level = t.chance(1, 40);
        let mut case = Case { long_idle: None, content, polls, idle: Vec::new(), pre: 0, head, capacity: if big { *t.pick(&[16usize, 8192, 8192, 65536, 100_000]) } else { *t.pick(&CAPACITIES) }, exec_level, used_handle: 0 };
        if !head {
            // the start position must be a character boundary (the content before it is not read)
            let b = boundaries(&case);
            while pre > 0 && !case.content.is_char_boundary(b[pre.min(b.len() - 1)]) {
                pre -= 1;
            }
        }
        case.pre = pre;
        case.idle = (0..nseg + 1).map(|_| if t.chance(1, 4) { 1 + t.draw(2) as u8 } else { 0 }).collect();
        // one case in thirty: the writer pauses for a thousand or two polls before one of the appends (index among the appends after start-up)
        if !case.exec_level && t.chance(1, 30) {
            case.long_idle = Some((t.draw(nseg + 1), *t.pick(&[1000u16, 1023, 1024, 1025, 2048, 2100, 4100])));
        }
        // drawn last (earlier tapes keep their cases): half of the executor-level cases hand over a handle that has been read from
        if case.exec_level && t.chance(1, 2) {
            case.used_handle = *t.pick(&[1usize, 2, 3, 7, 100_000]);
        }
        case
    }

    fn enum_count(&self, tier: Tier, _ctx: &Ctx) -> u64 {
        enum_space(tier).total
    }

    fn enum_case(&self, index: u64, tier: Tier, ctx: &Ctx) -> Option<Case> {
        let space = enum_space(tier);
        let ci = match space.offsets.binary_search(&index) {
            Ok(i) => i,
            Err(i) => i - 1,
        };
        let content = space.contents[ci].clone();
        let mut rest = index - space.offsets[ci];
        let head = rest % 2 == 0;
        rest /= 2;
        let capacity = ENUM_CAPS[(rest % ENUM_CAPS.len() as u64) as usize];
        rest /= ENUM_CAPS.len() as u64;
        let mut polls = Vec::new();
        for pos in 1..content.len() {
            if rest & (1 << (pos - 1)) != 0 {
                if ctx.excluded("c10_utf8_split") && !content.is_char_boundary(pos) {
                    return None;
                }
                polls.push(pos);
            }
        }
        // without --head everything is appended after start-up (pre = 0): same expectation, other seek path
        Some(Case { content, polls, idle: Vec::new(), pre: 0, head, capacity, exec_level: false, long_idle: None, used_handle: 0 })
    }

    fn enum_description(&self) -> Option<String> {
        Some("every non-empty content over {a, é, €, \\n} of at most 5 bytes (quick) / 8 bytes (thorough) x every subset of interior byte offsets as reader polls x capacities {1,2,5,8192} x head on/off".to_string())
    }

    fn check(&self, case: &Case, ctx: &Ctx, obs: &mut Obs) -> Result<(), Failure> {
        let bytes = case.content.as_bytes();
        let b = boundaries(case);
        let nseg = b.len() - 1;
        let pre = case.pre.min(nseg);
        let start = if case.head { 0 } else { b[pre] };
        let expected: Vec<Vec<u8>> = complete_lines(&bytes[start..]);

        // labels / non-triviality
        let mut inside_line = false;
        let mut inside_utf8 = false;
        for &p in &b[1..b.len() - 1] {
            if p <= start {
                continue;
            }
            if bytes[p - 1] != b'\n' {
                inside_line = true;
            }
            if !case.content.is_char_boundary(p) {
                inside_utf8 = true;
                obs.label("cut-inside-utf8");
            }
            if bytes[p] == b'\n' {
                obs.label("cut-before-newline");
            }
        }
        if inside_line {
            obs.label("poll-inside-line");
        }
        if expected.iter().any(|l| l.len() > case.capacity) {
            obs.label("line>buffer");
        }
        if !case.head && pre > 0 {
            obs.label("pre-existing-skipped");
        }
        obs.nontrivial = inside_line;
        if bytes.len() > 100_000 {
            obs.label("content>100KiB");
        }

        if case.exec_level {
            obs.label("executor-level");
            let job = crate::follow_child::FollowJob {
                defs: "CREATE TABLE t('(.*)' => l TEXT);".to_string(),
                query: "SELECT input FROM t".to_string(),
                content: case.content.clone(),
                polls: case.polls.clone(),
                idle: case.idle.clone(),
                pre,
                head: case.head,
                interrupt_at_probe: None,
                file: ctx.file("follow-exec.txt").to_string_lossy().to_string(),
                used_handle: case.used_handle,
            };
            if case.used_handle > 0 && b[pre] > 0 {
                obs.label("executor-level: used handle");
            }
            let out = match crate::follow_child::run_follow(ctx, &job) {
                Ok(o) => o,
                Err(e) => {
                    eprintln!("follow child problem: {}", e);
                    std::process::exit(2);
                }
            };
            let mut got: Vec<String> = Vec::new();
            for line in out.stdout.lines() {
                if line.is_empty() {
                    continue;
                }
                match crate::value::parse_json(line) {
                    Ok(j) => match j.get("input") {
                        Some(crate::value::J::Str(s)) => got.push(s.clone()),
                        other => return Err(Failure::new("executor-level: undecodable", format!("line {:?}: {:?}", line, other))),
                    },
                    Err(e) => return Err(Failure::new("executor-level: undecodable", format!("line {:?}: {}", line, e))),
                }
            }
            let want: Vec<String> = expected.iter().map(|l| String::from_utf8_lossy(l).into_owned()).collect();
            if got != want || out.result.is_err() {
                return Err(Failure::new(
                    format!("executor-level: {}", if case.head { "head" } else if pre > 0 { "tail-with-existing-content" } else { "tail" }),
                    format!("content {:?}, polls {:?}, {} bytes present at start-up, head={}, bytes read through the handle beforehand: up to {}\n  FollowFileExecutor delivered {:?} ({:?})\n  expected {:?}", case.content, &b[1..b.len() - 1], b[pre], case.head, case.used_handle, got, out.result, want),
                ));
            }
            return Ok(());
        }
        let delivered = match run_iterator(case, ctx) {
            Ok(d) => d,
            Err(e) if e.starts_with("panic") => return Err(Failure::new("panic", e)),
            Err(e) => {
                eprintln!("scratch I/O problem: {}", e);
                std::process::exit(2);
            }
        };
        let got: Vec<&[u8]> = delivered.iter().map(|s| s.as_bytes()).collect();
        let want: Vec<&[u8]> = expected.iter().map(|v| v.as_slice()).collect();
        if got != want {
            let kind = if got.len() < want.len() && got[..] == want[..got.len()] {
                "lines-lost"
            } else if got.len() > want.len() {
                "extra-lines"
            } else {
                "lines-differ"
            };
            let cause = if inside_utf8 { "poll-inside-utf8" } else { "plain" };
            // (huge contents are shown around the first difference only)
            let short = |text: String| if text.chars().count() > 3000 { format!("{} ... [{} characters in all]", text.chars().take(3000).collect::<String>(), text.chars().count()) } else { text };
            let first = got.iter().zip(want.iter()).position(|(g, w)| g != w).unwrap_or(got.len().min(want.len()));
            let show = |v: &Vec<&[u8]>| short(format!("{:?}", v.iter().skip(first.saturating_sub(1)).take(6).map(|l| short(String::from_utf8_lossy(l).into_owned())).collect::<Vec<_>>()));
            if expected.len() > 1000 || expected.iter().any(|l| l.len() > 60_000) {
                obs.label("big-content");
            }
            return Err(Failure::new(
                format!("{}: {}", kind, cause),
                format!(
                    "content {}, reader polls at byte offsets {:?} (pre-existing {} bytes, head={}, capacity {})\n  {} lines delivered, {} expected; from line {} on\n  delivered: {}\n  expected:  {}",
                    short(format!("{:?}", case.content)),
                    &b[1..b.len() - 1],
                    b[pre],
                    case.head,
                    case.capacity,
                    got.len(),
                    want.len(),
                    first.saturating_sub(1) + 1,
                    show(&got),
                    show(&want)
                ),
            ));
        }
        Ok(())
    }
}
