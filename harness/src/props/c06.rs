//! C06 — lines that yield no row are invisible to every query (metamorphic: output(base) = output(base + noise)).

use serde::{Deserialize, Serialize};

use sqlgrep::execution::execution_engine::{ExecutionConfig, ExecutionEngine};

use crate::data::*;
use crate::exec::*;
use crate::gen_query::*;
use crate::run::{Ctx, Failure, Obs, Property, Tier};
use crate::stmt::*;
use crate::tape::Tape;

#[derive(Clone, Debug, Serialize, Deserialize)]
pub struct Case {
    pub table: DataTable,
    pub joined: Option<DataTable>,
    pub query: Select,
    pub base: Vec<String>,
    pub joined_base: Vec<String>,
    /// (position in the base sequence before which the line is inserted, line); positions ascending
    pub noise: Vec<(usize, String)>,
    pub joined_noise: Vec<(usize, String)>,
    /// the admission slice: a free-form table definition (C01's generator) whose lines are sorted into base / noise by the reference extraction model
    #[serde(default)]
    pub free: Option<Free>,
}

#[derive(Clone, Debug, Serialize, Deserialize)]
pub struct Free {
    pub def: TableDef,
    pub query: String,
    pub base: Vec<String>,
    pub noise: Vec<(usize, String)>,
}

pub struct C06;

pub fn interleave(base: &[String], noise: &[(usize, String)]) -> Vec<String> {
    let mut out = Vec::new();
    let mut k = 0;
    for (i, l) in base.iter().enumerate() {
        while k < noise.len() && noise[k].0 <= i {
            out.push(noise[k].1.clone());
            k += 1;
        }
        out.push(l.clone());
    }
    while k < noise.len() {
        out.push(noise[k].1.clone());
        k += 1;
    }
    out
}

pub struct Prepared {
    pub tables: sqlgrep::Tables,
    pub statement: sqlgrep::Statement,
    pub text: String,
    pub defs: String,
}

/// Builds tables + statement; the joined lines are written to a scratch file whose path goes into the statement.
pub fn prepare(ctx: &Ctx, table: &DataTable, joined: Option<&DataTable>, query: &Select, joined_lines: &[String], tag: &str) -> Result<Prepared, Failure> {
    let defs = match joined {
        Some(j) => format!("{} {}", table.definition(), j.definition()),
        None => table.definition(),
    };
    let tables = build_tables(&defs).map_err(|e| Failure::new("definition-rejected", format!("{}: {}", defs, e)))?;
    let mut q = query.clone();
    if let Some(j) = q.join.as_mut() {
        let path = ctx.file(&format!("{}-joined.txt", tag));
        write_file(&path, &lines_to_bytes(joined_lines));
        j.file = path.to_string_lossy().to_string();
    }
    let text = q.text();
    let statement = parse_statement(&text).map_err(|e| Failure::new("query-rejected", format!("`{}`: {}", text, e)))?;
    Ok(Prepared { tables, statement, text, defs })
}

/// Per-line (follow mode) transcript: Debug of every emitted row (non-aggregate) or of the last shown table (aggregate).
pub fn per_line_transcript(p: &Prepared, lines: &[String]) -> Result<(Vec<String>, bool), String> {
    let mut engine = match crate::run::catch(|| ExecutionEngine::with_executed_joined_table(&p.tables, &p.statement)) {
        Ok(Ok(e)) => e,
        Ok(Err(e)) => return Ok((vec![format!("error: {}", e)], true)),
        Err(panic) => return Err(panic),
    };
    let aggregate = p.statement.is_aggregate();
    let mut out: Vec<String> = Vec::new();
    let mut errored = false;
    for line in lines {
        match engine_line(&mut engine, line, &ExecutionConfig::default())? {
            Ok(lo) => {
                if let Some(rr) = lo.result {
                    if aggregate {
                        out = rr.data.iter().map(|r| format!("{:?}", r.columns)).collect();
                    } else {
                        out.extend(rr.data.iter().map(|r| format!("{:?}", r.columns)));
                    }
                }
                if lo.reached_limit {
                    break;
                }
            }
            Err(_) => {
                errored = true;
                break;
            }
        }
    }
    Ok((out, errored))
}

/// Free-form definitions (several patterns, split / match modes, inline patterns, arrays, multi-group timestamps, NOT NULL / DEFAULT /
/// TRIM in any combination): the reference extraction model decides which generated lines are admitted by the property's rule.
fn gen_free(t: &mut Tape, ctx: &Ctx) -> Option<Free> {
    use crate::extract_model::*;
    let c = crate::props::c01::C01.generate(t, ctx);
    let compiled = compile(&c.def)?;
    let mut base = Vec::new();
    let mut rejected = Vec::new();
    let mut candidates = c.lines.clone();
    // near-misses of the generated lines and plain non-matching text
    for l in &c.lines {
        if t.chance(1, 2) && !l.is_empty() {
            let cut = t.draw(l.len());
            if l.is_char_boundary(cut) {
                candidates.push(l[..cut].to_string());
            }
        }
        if t.chance(1, 3) {
            candidates.push(l.chars().map(|ch| if ch.is_ascii_digit() { 'x' } else { ch }).collect());
        }
        if t.chance(1, 3) {
            candidates.push(l.replace("jan", "jxn").replace("FEB", "FEX").replace("June", "Juno").replace("sept", "sopt").replace(" 1 ", " 13 ").replace(" 12 ", " 0 "));
        }
    }
    for extra in ["", "noise", "   ", "no match here", "-", "{}"] {
        if t.chance(1, 3) {
            candidates.push(extra.to_string());
        }
    }
    for l in candidates {
        if l.contains('\n') || l.contains('\r') {
            continue;
        }
        match model_admitted(&model_extract(&compiled, &l)) {
            Some(true) => base.push(l),
            Some(false) => rejected.push(l),
            None => {}
        }
    }
    let mut noise: Vec<(usize, String)> = Vec::new();
    for l in rejected {
        noise.push((t.draw(base.len() + 1), l));
    }
    noise.sort_by_key(|x| x.0);
    let first = c.def.column_names().first().cloned().unwrap_or_else(|| "c0".to_string());
    let query = match t.draw(6) {
        0 => "SELECT * FROM t".to_string(),
        1 => "SELECT COUNT(*) AS n FROM t".to_string(),
        2 => "SELECT DISTINCT * FROM t".to_string(),
        3 => format!("SELECT * FROM t LIMIT {}", 1 + t.draw(4)),
        4 => format!("SELECT {0}, COUNT(*) AS n FROM t GROUP BY {0}", first),
        _ => format!("SELECT COUNT(*) AS n, COUNT({}) AS m FROM t", first),
    };
    Some(Free { def: c.def, query, base, noise })
}

fn check_free(f: &Free, ctx: &Ctx, obs: &mut Obs) -> Result<(), Failure> {
    obs.label("free-form-table");
    let defs = f.def.text();
    let tables = build_tables(&defs).map_err(|e| Failure::new("definition-rejected", format!("{}: {}", defs, e)))?;
    let def = tables.get("t").ok_or_else(|| Failure::new("definition-lost", defs.clone()))?;
    let statement = parse_statement(&f.query).map_err(|e| Failure::new("query-rejected", format!("`{}`: {}", f.query, e)))?;
    let context = format!("query: {}\n  table: {}\n  base: {:?}\n  noise (position, line): {:?}", f.query, defs, f.base, f.noise);
    let has_not_null = f.def.entries.iter().any(|e| matches!(e, Entry::Column { modifier: Some(Modifier::NotNull), .. }));
    let has_default = f.def.entries.iter().any(|e| matches!(e, Entry::Column { modifier: Some(Modifier::Default(_)), .. }));
    if has_not_null {
        obs.label("free: NOT NULL column");
    }
    if has_default {
        obs.label("free: DEFAULT column");
    }
    if has_not_null && has_default {
        obs.label("free: NOT NULL + DEFAULT");
    }
    // (i) the admission rule itself, line by line
    for (_, l) in &f.noise {
        obs.inner += 1;
        let row = crate::run::catch(|| def.extract(l)).map_err(|p| Failure::new(format!("panic: {}", crate::run::panic_class(&p)), format!("extract panicked on {:?}: {}\n  {}", l, p, context)))?;
        if row.any_result() {
            return Err(Failure::new(
                format!("noise-admitted: {}", if has_not_null { "table with a NOT NULL column" } else { "no column has a value" }),
                format!("the line {:?} becomes the row {:?} although the admission rule rejects it\n  {}", l, row.columns, context),
            ));
        }
    }
    for l in &f.base {
        obs.inner += 1;
        let row = crate::run::catch(|| def.extract(l)).map_err(|p| Failure::new(format!("panic: {}", crate::run::panic_class(&p)), format!("extract panicked on {:?}: {}\n  {}", l, p, context)))?;
        if !row.any_result() {
            return Err(Failure::new("admitted-line-dropped", format!("the line {:?} yields no row although a column has a value and every NOT NULL column is non-NULL\n  {}", l, context)));
        }
    }
    // (ii) the consequence: output unchanged by the noise
    let inside = f.noise.iter().any(|(p, _)| *p > 0 && *p < f.base.len());
    if inside {
        obs.label("noise-inside");
    }
    obs.label("stateful");
    obs.nontrivial = inside && !f.base.is_empty();
    let noisy = interleave(&f.base, &f.noise);
    let fa = scratch_files(ctx, "c06fa", &[lines_to_bytes(&f.base)]);
    let fb = scratch_files(ctx, "c06fb", &[lines_to_bytes(&noisy)]);
    let a = run_batch(&tables, &statement, &fa, RunOptions::default()).map_err(|p| Failure::new(format!("panic: {}", crate::run::panic_class(&p)), format!("panicked (without noise): {}\n  {}", p, context)))?;
    let b = run_batch(&tables, &statement, &fb, RunOptions::default()).map_err(|p| Failure::new(format!("panic: {}", crate::run::panic_class(&p)), format!("panicked (with noise): {}\n  {}", p, context)))?;
    if a.lines != b.lines || a.result.is_err() != b.result.is_err() {
        return Err(Failure::new(
            "batch-output-differs: free-form table",
            format!("batch output changes when non-admitted lines are inserted\n  without: {:?} {:?}\n  with:    {:?} {:?}\n  {}", a.lines, a.result, b.lines, b.result, context),
        ));
    }
    let p = Prepared { tables, statement, text: f.query.clone(), defs };
    let ta = per_line_transcript(&p, &f.base).map_err(|e| Failure::new(format!("panic: {}", crate::run::panic_class(&e)), format!("per-line path panicked: {}\n  {}", e, context)))?;
    let tb = per_line_transcript(&p, &noisy).map_err(|e| Failure::new(format!("panic: {}", crate::run::panic_class(&e)), format!("per-line path panicked (with noise): {}\n  {}", e, context)))?;
    if ta != tb {
        return Err(Failure::new(
            "per-line-output-differs: free-form table",
            format!("per-line (follow path) results change when non-admitted lines are inserted\n  without: {:?}\n  with:    {:?}\n  {}", ta, tb, context),
        ));
    }
    Ok(())
}

impl Property for C06 {
    type Case = Case;

    fn id(&self) -> &'static str {
        "C06"
    }

    fn rule(&self) -> String {
        "a statement of every kind (plain, DISTINCT, LIMIT n, aggregate +- HAVING, join) over a generated table (JSON or regex flavour, optional NOT NULL column) x base lines x noise lines that are \
         non-admitted by construction (text matching no pattern, empty line, near-miss, JSON with only nulls / wrong-typed leaves / missing NOT NULL field ; one case in sixty: a near-miss of 4 KiB - 128 KiB of padding followed by a complete row; tables with a DEFAULT column admit every line unless their NOT NULL column is NULL) x insertion positions, on the queried input \
         and on the joined file. Oracle (metamorphic): the captured batch output (FileExecutor, JSON) and the per-line (follow path) transcript are identical with and without the noise. \
         A quarter of the cases use a free-form definition instead (C01's generator: several patterns, split / match modes, inline patterns, arrays, multi-group timestamps, \
         NOT NULL / DEFAULT / TRIM in any combination): the reference extraction model sorts generated lines and their near-misses into admitted and non-admitted by the property's rule, the implementation must agree \
         line by line (both directions), and SELECT * / DISTINCT / LIMIT / COUNT / GROUP BY output must not change when the non-admitted ones are interleaved. \
         Non-trivial: >= 1 noise line strictly between two base lines, >= 1 base line after the last noise line, and the statement keeps state (DISTINCT, LIMIT, aggregate or join); distinct by case."
            .to_string()
    }

    fn assumptions(&self) -> Vec<String> {
        vec!["noise lines are built to be non-admitted by the property's admission rule (no non-NULL column, or a NULL in the NOT NULL column), not by asking the implementation".to_string()]
    }

    fn cases(&self, tier: Tier) -> u64 {
        match tier {
            Tier::Quick => 180_000,
            Tier::Thorough => 1_500_000,
        }
    }

    fn tape_len(&self) -> usize {
        1800
    }

    fn label_floors(&self) -> Vec<(&'static str, f64)> {
        vec![("noise-inside", 0.3), ("stateful", 0.4), ("free-form-table", 0.1), ("free: NOT NULL + DEFAULT", 0.005)]
    }

    fn generate(&self, t: &mut Tape, ctx: &Ctx) -> Case {
        let mut opts = QOpts::all();
        if ctx.excluded("c07_limit_zero") {
            // LIMIT 0 is C07's open finding seen through C06 (noise at position 0 changes which line trips the limit)
            opts.limit = true;
        }
        let g = gen_query(t, ctx, opts);
        let base = gen_data(t, &g.table, 12);
        let joined_base = g.joined.as_ref().map(|j| gen_data(t, j, 8)).unwrap_or_default();
        let mut noise = Vec::new();
        let n = t.draw(8);
        for _ in 0..n {
            if let Some(l) = gen_noise_line(t, &g.table) {
                noise.push((t.draw(base.len() + 1), l));
            }
        }
        // one case in sixty: a near-miss far longer than any buffer - padding of about a buffer size (4 KiB ... 128 KiB), then a complete row
        let long_noise = |t: &mut Tape, table: &DataTable| -> Option<String> {
            if table.has_default() || (!table.json && table.cols.iter().any(|c| c.1 == Ty::Bool)) {
                return None;
            }
            let values: Vec<crate::value::V> = table.cols.iter().map(|(_, ty)| crate::props::c04::small_value(t, *ty)).collect();
            let full = table.line(&values, t);
            let size = *t.pick(&[4096usize, 8192, 16384, 32768, 65536, 131072]) + t.draw(3) - 1;
            Some(format!("{}{}", "x".repeat(size), full))
        };
        if t.chance(1, 60) {
            if let Some(l) = long_noise(t, &g.table) {
                noise.push((t.draw(base.len() + 1), l));
            }
        }
        noise.sort_by_key(|x| x.0);
        let mut joined_noise = Vec::new();
        if let Some(j) = &g.joined {
            if t.chance(1, 30) {
                if let Some(l) = long_noise(t, j) {
                    joined_noise.push((t.draw(joined_base.len() + 1), l));
                }
            }
            let n = t.draw(5);
            for _ in 0..n {
                if let Some(l) = gen_noise_line(t, j) {
                    joined_noise.push((t.draw(joined_base.len() + 1), l));
                }
            }
            joined_noise.sort_by_key(|x| x.0);
        }
        let mut query = g.query;
        if ctx.excluded("c07_limit_zero") && query.limit == Some(0) {
            query.limit = Some(1);
        }
        let mut free = None;
        if t.chance(1, 4) {
            free = gen_free(t, ctx);
        }
        Case { table: g.table, joined: g.joined, query, base, joined_base, noise, joined_noise, free }
    }

    fn check(&self, case: &Case, ctx: &Ctx, obs: &mut Obs) -> Result<(), Failure> {
        if let Some(f) = &case.free {
            return check_free(f, ctx, obs);
        }
        let noisy = interleave(&case.base, &case.noise);
        let joined_noisy = interleave(&case.joined_base, &case.joined_noise);
        let clean = prepare(ctx, &case.table, case.joined.as_ref(), &case.query, &case.joined_base, "c06a")?;
        let dirty = prepare(ctx, &case.table, case.joined.as_ref(), &case.query, &joined_noisy, "c06b")?;

        let stateful = case.query.distinct || case.query.limit.is_some() || clean.statement.is_aggregate() || case.query.join.is_some();
        let inside = case.noise.iter().any(|(p, _)| *p > 0 && *p < case.base.len());
        let after = case.noise.last().map(|(p, _)| *p < case.base.len()).unwrap_or(false);
        if inside {
            obs.label("noise-inside");
        }
        if stateful {
            obs.label("stateful");
        }
        if !case.joined_noise.is_empty() {
            obs.label("noise-in-joined-file");
        }
        if case.query.limit.is_some() {
            obs.label("limit");
        }
        obs.nontrivial = inside && after && stateful;

        let short = |l: &String| if l.len() > 400 { format!("{}...[{} bytes in all]...{}", &l[..40], l.len(), &l[l.len() - 120..]) } else { l.clone() };
        let short_noise = |n: &Vec<(usize, String)>| n.iter().map(|(p, l)| (*p, short(l))).collect::<Vec<_>>();
        if case.noise.iter().chain(case.joined_noise.iter()).any(|(_, l)| l.len() > 4000) {
            obs.label("noise-longer-than-a-buffer");
        }
        let context = format!("query: {}\n  tables: {}\n  base: {:?}\n  noise (position, line): {:?}\n  joined base: {:?}\n  joined noise: {:?}", clean.text, clean.defs, case.base, short_noise(&case.noise), case.joined_base, short_noise(&case.joined_noise));
        let kind = if clean.statement.is_aggregate() { "aggregate" } else if case.query.join.is_some() { "join" } else if case.query.distinct { "distinct" } else if case.query.limit.is_some() { "limit" } else { "plain" };
        let limit0 = if case.query.limit == Some(0) { "+limit0" } else { "" };

        // batch
        let fa = scratch_files(ctx, "c06a", &[lines_to_bytes(&case.base)]);
        let fb = scratch_files(ctx, "c06b", &[lines_to_bytes(&noisy)]);
        let a = run_batch(&clean.tables, &clean.statement, &fa, RunOptions::default()).map_err(|p| Failure::new(format!("panic: {}", crate::run::panic_class(&p)), format!("panicked (without noise): {}\n  {}", p, context)))?;
        let b = run_batch(&dirty.tables, &dirty.statement, &fb, RunOptions::default()).map_err(|p| Failure::new(format!("panic: {}", crate::run::panic_class(&p)), format!("panicked (with noise): {}\n  {}", p, context)))?;
        if a.lines != b.lines || a.result.is_err() != b.result.is_err() {
            return Err(Failure::new(
                format!("batch-output-differs: {}{}", kind, limit0),
                format!("batch output changes when non-admitted lines are inserted\n  without: {:?} {:?}\n  with:    {:?} {:?}\n  {}", a.lines, a.result, b.lines, b.result, context),
            ));
        }
        // per-line path
        let ta = per_line_transcript(&clean, &case.base).map_err(|p| Failure::new(format!("panic: {}", crate::run::panic_class(&p)), format!("per-line path panicked: {}\n  {}", p, context)))?;
        let tb = per_line_transcript(&dirty, &noisy).map_err(|p| Failure::new(format!("panic: {}", crate::run::panic_class(&p)), format!("per-line path panicked (with noise): {}\n  {}", p, context)))?;
        if ta != tb {
            return Err(Failure::new(
                format!("per-line-output-differs: {}{}", kind, limit0),
                format!("per-line (follow path) results change when non-admitted lines are inserted\n  without: {:?}\n  with:    {:?}\n  {}", ta, tb, context),
            ));
        }
        Ok(())
    }
}
