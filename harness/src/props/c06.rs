//! C06 — lines that yield no row are invisible to every query (metamorphic: output(base) = output(base + noise)).

use serde::{Deserialize, Serialize};

use sqlgrep::execution::execution_engine::{ExecutionConfig, ExecutionEngine};

use crate::data::*;
use crate::exec::*;
use crate::gen_query::*;
use crate::run::{Ctx, Failure, Obs, Property, Tier};
use crate::stmt::*;
use crate::tape::Tape;

#[derive(Clone, Debug, Serialize, Deserialize)]
pub struct Case {
    pub table: DataTable,
    pub joined: Option<DataTable>,
    pub query: Select,
    pub base: Vec<String>,
    pub joined_base: Vec<String>,
    /// (position in the base sequence before which the line is inserted, line); positions ascending
    pub noise: Vec<(usize, String)>,
    pub joined_noise: Vec<(usize, String)>,
}

pub struct C06;

pub fn interleave(base: &[String], noise: &[(usize, String)]) -> Vec<String> {
    let mut out = Vec::new();
    let mut k = 0;
    for (i, l) in base.iter().enumerate() {
        while k < noise.len() && noise[k].0 <= i {
            out.push(noise[k].1.clone());
            k += 1;
        }
        out.push(l.clone());
    }
    while k < noise.len() {
        out.push(noise[k].1.clone());
        k += 1;
    }
    out
}

pub struct Prepared {
    pub tables: sqlgrep::Tables,
    pub statement: sqlgrep::Statement,
    pub text: String,
    pub defs: String,
}

/// Builds tables + statement; the joined lines are written to a scratch file whose path goes into the statement.
pub fn prepare(ctx: &Ctx, table: &DataTable, joined: Option<&DataTable>, query: &Select, joined_lines: &[String], tag: &str) -> Result<Prepared, Failure> {
    let defs = match joined {
        Some(j) => format!("{} {}", table.definition(), j.definition()),
        None => table.definition(),
    };
    let tables = build_tables(&defs).map_err(|e| Failure::new("definition-rejected", format!("{}: {}", defs, e)))?;
    let mut q = query.clone();
    if let Some(j) = q.join.as_mut() {
        let path = ctx.file(&format!("{}-joined.txt", tag));
        write_file(&path, &lines_to_bytes(joined_lines));
        j.file = path.to_string_lossy().to_string();
    }
    let text = q.text();
    let statement = parse_statement(&text).map_err(|e| Failure::new("query-rejected", format!("`{}`: {}", text, e)))?;
    Ok(Prepared { tables, statement, text, defs })
}

/// Per-line (follow mode) transcript: Debug of every emitted row (non-aggregate) or of the last shown table (aggregate).
pub fn per_line_transcript(p: &Prepared, lines: &[String]) -> Result<(Vec<String>, bool), String> {
    let mut engine = match crate::run::catch(|| ExecutionEngine::with_executed_joined_table(&p.tables, &p.statement)) {
        Ok(Ok(e)) => e,
        Ok(Err(e)) => return Ok((vec![format!("error: {}", e)], true)),
        Err(panic) => return Err(panic),
    };
    let aggregate = p.statement.is_aggregate();
    let mut out: Vec<String> = Vec::new();
    let mut errored = false;
    for line in lines {
        match engine_line(&mut engine, line, &ExecutionConfig::default())? {
            Ok(lo) => {
                if let Some(rr) = lo.result {
                    if aggregate {
                        out = rr.data.iter().map(|r| format!("{:?}", r.columns)).collect();
                    } else {
                        out.extend(rr.data.iter().map(|r| format!("{:?}", r.columns)));
                    }
                }
                if lo.reached_limit {
                    break;
                }
            }
            Err(_) => {
                errored = true;
                break;
            }
        }
    }
    Ok((out, errored))
}

impl Property for C06 {
    type Case = Case;

    fn id(&self) -> &'static str {
        "C06"
    }

    fn rule(&self) -> String {
        "a statement of every kind (plain, DISTINCT, LIMIT n, aggregate +- HAVING, join) over a generated table (JSON or regex flavour, optional NOT NULL column) x base lines x noise lines that are \
         non-admitted by construction (text matching no pattern, empty line, near-miss, JSON with only nulls / wrong-typed leaves / missing NOT NULL field) x insertion positions, on the queried input \
         and on the joined file. Oracle (metamorphic): the captured batch output (FileExecutor, JSON) and the per-line (follow path) transcript are identical with and without the noise. \
         Non-trivial: >= 1 noise line strictly between two base lines, >= 1 base line after the last noise line, and the statement keeps state (DISTINCT, LIMIT, aggregate or join); distinct by case."
            .to_string()
    }

    fn assumptions(&self) -> Vec<String> {
        vec!["noise lines are built to be non-admitted by the property's admission rule (no non-NULL column, or a NULL in the NOT NULL column), not by asking the implementation".to_string()]
    }

    fn cases(&self, tier: Tier) -> u64 {
        match tier {
            Tier::Quick => 60_000,
            Tier::Thorough => 1_500_000,
        }
    }

    fn tape_len(&self) -> usize {
        900
    }

    fn label_floors(&self) -> Vec<(&'static str, f64)> {
        vec![("noise-inside", 0.3), ("stateful", 0.4)]
    }

    fn generate(&self, t: &mut Tape, ctx: &Ctx) -> Case {
        let mut opts = QOpts::all();
        if ctx.excluded("c07_limit_zero") {
            // LIMIT 0 is C07's open finding seen through C06 (noise at position 0 changes which line trips the limit)
            opts.limit = true;
        }
        let g = gen_query(t, ctx, opts);
        let base = gen_data(t, &g.table, 12);
        let joined_base = g.joined.as_ref().map(|j| gen_data(t, j, 8)).unwrap_or_default();
        let mut noise = Vec::new();
        let n = t.draw(8);
        for _ in 0..n {
            if let Some(l) = gen_noise_line(t, &g.table) {
                noise.push((t.draw(base.len() + 1), l));
            }
        }
        noise.sort_by_key(|x| x.0);
        let mut joined_noise = Vec::new();
        if let Some(j) = &g.joined {
            let n = t.draw(5);
            for _ in 0..n {
                if let Some(l) = gen_noise_line(t, j) {
                    joined_noise.push((t.draw(joined_base.len() + 1), l));
                }
            }
            joined_noise.sort_by_key(|x| x.0);
        }
        let mut query = g.query;
        if ctx.excluded("c07_limit_zero") && query.limit == Some(0) {
            query.limit = Some(1);
        }
        Case { table: g.table, joined: g.joined, query, base, joined_base, noise, joined_noise }
    }

    fn check(&self, case: &Case, ctx: &Ctx, obs: &mut Obs) -> Result<(), Failure> {
        let noisy = interleave(&case.base, &case.noise);
        let joined_noisy = interleave(&case.joined_base, &case.joined_noise);
        let clean = prepare(ctx, &case.table, case.joined.as_ref(), &case.query, &case.joined_base, "c06a")?;
        let dirty = prepare(ctx, &case.table, case.joined.as_ref(), &case.query, &joined_noisy, "c06b")?;

        let stateful = case.query.distinct || case.query.limit.is_some() || clean.statement.is_aggregate() || case.query.join.is_some();
        let inside = case.noise.iter().any(|(p, _)| *p > 0 && *p < case.base.len());
        let after = case.noise.last().map(|(p, _)| *p < case.base.len()).unwrap_or(false);
        if inside {
            obs.label("noise-inside");
        }
        if stateful {
            obs.label("stateful");
        }
        if !case.joined_noise.is_empty() {
            obs.label("noise-in-joined-file");
        }
        if case.query.limit.is_some() {
            obs.label("limit");
        }
        obs.nontrivial = inside && after && stateful;

        let context = format!("query: {}\n  tables: {}\n  base: {:?}\n  noise (position, line): {:?}\n  joined base: {:?}\n  joined noise: {:?}", clean.text, clean.defs, case.base, case.noise, case.joined_base, case.joined_noise);
        let kind = if clean.statement.is_aggregate() { "aggregate" } else if case.query.join.is_some() { "join" } else if case.query.distinct { "distinct" } else if case.query.limit.is_some() { "limit" } else { "plain" };
        let limit0 = if case.query.limit == Some(0) { "+limit0" } else { "" };

        // batch
        let fa = scratch_files(ctx, "c06a", &[lines_to_bytes(&case.base)]);
        let fb = scratch_files(ctx, "c06b", &[lines_to_bytes(&noisy)]);
        let a = run_batch(&clean.tables, &clean.statement, &fa, RunOptions::default()).map_err(|p| Failure::new(format!("panic: {}", crate::run::panic_class(&p)), format!("panicked (without noise): {}\n  {}", p, context)))?;
        let b = run_batch(&dirty.tables, &dirty.statement, &fb, RunOptions::default()).map_err(|p| Failure::new(format!("panic: {}", crate::run::panic_class(&p)), format!("panicked (with noise): {}\n  {}", p, context)))?;
        if a.lines != b.lines || a.result.is_err() != b.result.is_err() {
            return Err(Failure::new(
                format!("batch-output-differs: {}{}", kind, limit0),
                format!("batch output changes when non-admitted lines are inserted\n  without: {:?} {:?}\n  with:    {:?} {:?}\n  {}", a.lines, a.result, b.lines, b.result, context),
            ));
        }
        // per-line path
        let ta = per_line_transcript(&clean, &case.base).map_err(|p| Failure::new(format!("panic: {}", crate::run::panic_class(&p)), format!("per-line path panicked: {}\n  {}", p, context)))?;
        let tb = per_line_transcript(&dirty, &noisy).map_err(|p| Failure::new(format!("panic: {}", crate::run::panic_class(&p)), format!("per-line path panicked (with noise): {}\n  {}", p, context)))?;
        if ta != tb {
            return Err(Failure::new(
                format!("per-line-output-differs: {}{}", kind, limit0),
                format!("per-line (follow path) results change when non-admitted lines are inserted\n  without: {:?}\n  with:    {:?}\n  {}", ta, tb, context),
            ));
        }
        Ok(())
    }
}
