//! C14 — parsing is total: any text yields a statement or a located error.

use serde::{Deserialize, Serialize};

use crate::gen_stmt::*;
use crate::stmt::*;
use crate::run::{catch, panic_class, Ctx, Failure, Obs, Property, Tier};
use crate::sql::*;
use crate::tape::Tape;

#[derive(Clone, Debug, Serialize, Deserialize)]
pub struct Case {
    pub text: String,
    /// which generator produced it
    pub kind: String,
    /// check every prefix (by character) of `text` as well
    pub all_prefixes: bool,
    /// the text is invalid by construction (bad regex, empty JSON path, wrong aggregate arity, number out of range): it must be rejected
    pub must_reject: bool,
}

pub struct C14;

pub const VOCAB: [&str; 96] = [
    "SELECT", "FROM", "WHERE", "GROUP", "BY", "AS", "AND", "OR", "CREATE", "TABLE", "NOT", "IS", "IN", "HAVING", "INNER", "OUTER", "JOIN", "ON", "EXTRACT",
    "DEFAULT", "DISTINCT", "CASE", "WHEN", "THEN", "ELSE", "END", "LIMIT", "NULL", "TRUE", "FALSE", "array", "split", "match", "TRIM", "CONVERT",
    "MICROSECONDS", "int", "real", "text", "boolean", "timestamp", "interval", "count", "min", "max", "sum", "avg", "stddev", "variance", "percentile",
    "bool_and", "bool_or", "array_agg", "string_agg", "least", "greatest", "abs", "sqrt", "pow", "length", "upper", "lower", "regexp_matches",
    "array_unique", "array_length", "array_cat", "array_append", "array_prepend", "now", "make_timestamp", "date_trunc", "EPOCH", "x", "y", "t", "line",
    "+", "-", "*", "/", "<", ">", "=", "!", "<=", ">=", "!=", ".", ":", "::", ",", ";", "(", ")", "[", "]",
];
const VOCAB2: [&str; 14] = ["{", "}", "=>", "--", "'", "\\", "'a'", "'(x)'", "0", "1", "2.5", "99999999999999999999", "1.2.3", "0.5"];

fn random_char(t: &mut Tape) -> char {
    match t.weighted(&[8, 2, 2, 2, 2, 1, 1, 1, 1, 2]) {
        0 => (0x20u8 + t.draw(95) as u8) as char,
        1 => *t.pick(&['\n', '\t', '\r', '\0', '\u{7f}', '\u{1b}']),
        2 => char::from_u32(0xA0 + t.draw(0x60) as u32).unwrap_or('é'),
        3 => char::from_u32(0x4E00 + t.draw(0x500) as u32).unwrap_or('中'),
        4 => char::from_u32(0x1F600 + t.draw(0x40) as u32).unwrap_or('😀'),
        5 => *t.pick(&['\u{301}', '\u{308}', '\u{200d}', '\u{fe0f}']),
        6 => *t.pick(&['٣', '५', '９', '²', '½', 'Ⅷ']),
        7 => *t.pick(&['\u{a0}', '\u{2028}', '\u{2003}', '\u{3000}', '\u{feff}']),
        8 => *t.pick(&['\'', '\\', '-', ':', '=', '<', '!']),
        _ => char::from_u32(t.draw(0x11_0000) as u32).unwrap_or('\u{fffd}'),
    }
}

fn soup(t: &mut Tape) -> String {
    let n = 1 + t.draw(40);
    let mut out = String::new();
    for i in 0..n {
        if i > 0 && !t.chance(1, 5) {
            out.push(if t.chance(1, 10) { '\n' } else { ' ' });
        }
        if t.chance(1, 6) {
            out.push_str(*t.pick(&VOCAB2));
        } else {
            out.push_str(*t.pick(&VOCAB));
        }
    }
    out
}

fn valid_tokens(t: &mut Tape, ctx: &Ctx) -> Vec<Tok> {
    let mut tokens = if t.chance(1, 3) {
        gen_tabledef(t, "t").tokens()
    } else {
        let s = gen_select(t, ctx);
        if t.chance(1, 2) {
            s.tokens(&Renderer::minimal())
        } else {
            s.tokens(&Renderer::full())
        }
    };
    // one case in six: an identifier with letters whose lower / upper case form has another length (in characters or bytes)
    if t.chance(1, 6) {
        let name = *t.pick(&["İsim", "straße", "ǆx", "ﬁeld", "K\u{212a}", "ŉ_1", "İİİ"]);
        let victim = tokens.iter().find(|tk| tk.kind == TokKind::Ident).map(|tk| tk.text.clone());
        if let Some(victim) = victim {
            for tk in tokens.iter_mut() {
                if tk.kind == TokKind::Ident && tk.text == victim {
                    tk.text = name.to_string();
                }
            }
        }
    }
    tokens
}

/// An aggregate call under every form of expression (accepted or rejected with a located error - the parser's conversion of
/// aggregate statements walks the expression forms one by one)
fn aggregate_under(t: &mut Tape) -> String {
    let agg = format!("{}({})", *t.pick(&["SUM", "COUNT", "MIN", "MAX", "AVG", "BOOL_OR", "ARRAY_AGG", "PERCENTILE", "STRING_AGG", "COUNT"]), *t.pick(&["x", "*", "x, 0.5", "x, ','", "DISTINCT x", "", "x + 1"]));
    let wrapped = match t.draw(16) {
        0 => format!("CASE WHEN x > 0 THEN {} ELSE 0 END", agg),
        1 => format!("CASE WHEN {} > 0 THEN 1 ELSE 0 END", agg),
        2 => format!("{} IN (1, 2)", agg),
        3 => format!("x IN (1, {})", agg),
        4 => format!("({}, 1)", agg),
        5 => format!("array[{}]", agg),
        6 => format!("{}[1]", agg),
        7 => format!("x[{}]", agg),
        8 => format!("{}::text", agg),
        9 => format!("- {}", agg),
        10 => format!("NOT {}", agg),
        11 => format!("{} IS NOT NULL", agg),
        12 => format!("EXTRACT(EPOCH FROM {})", agg),
        13 => format!("abs({}) + least({}, 1)", agg, agg),
        14 => format!("{} AND {}", agg, agg),
        _ => format!("t.{}", agg),
    };
    match t.draw(5) {
        0 => format!("SELECT {} FROM t", wrapped),
        1 => format!("SELECT x, {} AS a FROM t GROUP BY x", wrapped),
        2 => format!("SELECT x FROM t GROUP BY x HAVING {}", wrapped),
        3 => format!("SELECT x FROM t WHERE {}", wrapped),
        _ => format!("SELECT COUNT(*) FROM t GROUP BY {}", wrapped),
    }
}

/// A definition whose patterns are each small enough but heavy together (whatever is built over all of them at once -
/// a set, a combined automaton - has its own size limit)
fn heavy_patterns(t: &mut Tape) -> String {
    let n = 2 + t.draw(5);
    let class = *t.pick(&["\\\\w", "\\\\w", "[\\\\p{L}\\\\d_]", "\\\\S"]);
    let width = *t.pick(&[16usize, 48, 64, 100]);
    let mut parts = Vec::new();
    for i in 0..n {
        parts.push(format!("p{} = '({}{{{}}})'", i, class, width));
    }
    for i in 0..n {
        parts.push(format!("p{}[1] => c{} TEXT", i, i));
    }
    format!("CREATE TABLE t({});", parts.join(", "))
}

fn nested(t: &mut Tape) -> String {
    let depth = 1 + t.draw(200);
    let core = *t.pick(&["x", "1", "", "x + 1", "'a'"]);
    let (open, close): (&str, &str) = match t.draw(9) {
        0 => ("(", ")"),
        1 => ("x[", "]"),
        2 => ("array[", "]"),
        3 => ("abs(", ")"),
        4 => ("CASE WHEN TRUE THEN ", " ELSE 0 END"),
        5 => ("NOT ", ""),
        6 => ("- ", ""),
        7 => ("(1 + ", ")"),
        _ => ("x IN (1, ", ")"),
    };
    let mut expr = String::new();
    for _ in 0..depth {
        expr.push_str(open);
    }
    expr.push_str(core);
    // sometimes unbalanced
    let closes = if t.chance(1, 4) { t.draw(depth + 1) } else { depth };
    for _ in 0..closes {
        expr.push_str(close);
    }
    match t.draw(3) {
        0 => format!("SELECT {} FROM t", expr),
        1 => format!("SELECT x FROM t WHERE {}", expr),
        _ => format!("SELECT COUNT() FROM t GROUP BY {} HAVING {}", expr, expr),
    }
}

/// texts that are invalid by construction and must be rejected with an error
fn invalid_definition(t: &mut Tape) -> (String, &'static str) {
    const BAD_REGEX: [&str; 9] = ["(", "[a-", "(?P<n", "a{2,1}", "*", "\\", "(?z)", "x)", "([0-9]+"];
    if t.chance(1, 3) {
        // a generated (valid) definition with one fault injected: any named pattern - used by a column or not - or an inline pattern
        let mut def = crate::gen_stmt::gen_tabledef(t, "t");
        let bad = t.pick(&BAD_REGEX).to_string();
        let pattern_slots: Vec<usize> = def.entries.iter().enumerate().filter(|(_, e)| matches!(e, Entry::Pattern { .. })).map(|(i, _)| i).collect();
        let inline_slots: Vec<usize> = def.entries.iter().enumerate().filter(|(_, e)| matches!(e, Entry::Column { source: Source::Inline(_), .. })).map(|(i, _)| i).collect();
        let why = match t.draw(4) {
            0 if !pattern_slots.is_empty() => {
                let i = *t.pick(&pattern_slots);
                if let Entry::Pattern { regex, .. } = &mut def.entries[i] {
                    *regex = bad;
                }
                "bad-regex-in-generated"
            }
            1 if !inline_slots.is_empty() => {
                let i = *t.pick(&inline_slots);
                if let Entry::Column { source, .. } = &mut def.entries[i] {
                    *source = Source::Inline(bad);
                }
                "bad-inline-regex-in-generated"
            }
            _ => {
                // an additional pattern that no column refers to
                let mode = match t.draw(3) {
                    0 => Some("split".to_string()),
                    1 => Some("match".to_string()),
                    _ => None,
                };
                let at = match t.draw(3) {
                    0 => 0,
                    1 => def.entries.len(),
                    _ => t.draw(def.entries.len() + 1),
                };
                def.entries.insert(at, Entry::Pattern { name: "unused".to_string(), mode, regex: bad });
                "bad-regex-unreferenced"
            }
        };
        return (def.text(), why);
    }
    match t.draw(12) {
        0 => (format!("CREATE TABLE t(line = '{}', line[1] => x INT);", *t.pick(&["(", "[a-", "(?P<n", "a{2,1}", "*", "\\\\", "(?z)"])), "bad-regex"),
        1 => (format!("CREATE TABLE t('{}' => x TEXT);", *t.pick(&["(", "[", "x)"])), "bad-inline-regex"),
        2 => ("CREATE TABLE t({ } => x INT);".to_string(), "empty-json-path"),
        3 => ("CREATE TABLE t(line = 'a', {} => x TEXT DEFAULT 'a');".to_string(), "empty-json-path"),
        4 => (format!("SELECT string_agg({}) FROM t", *t.pick(&["x", "x, y, z", ""])), "aggregate-arity"),
        5 => (format!("SELECT percentile({}) FROM t", *t.pick(&["x", "x, 0.5, 1", ""])), "aggregate-arity"),
        6 => (format!("SELECT {}(x, y) FROM t", *t.pick(&["count", "sum", "min", "max", "avg", "stddev", "variance", "bool_and", "bool_or", "array_agg"])), "aggregate-arity"),
        7 => (format!("SELECT {}() FROM t", *t.pick(&["sum", "min", "max", "avg", "stddev", "variance", "bool_and", "bool_or", "array_agg", "percentile", "string_agg"])), "aggregate-arity"),
        8 => (format!("CREATE TABLE t(line = 'a', line[{}] => x INT);", *t.pick(&["99999999999999999999", "9223372036854775808", "1.5"])), "number-out-of-range"),
        9 => (format!("SELECT x FROM t LIMIT {}", *t.pick(&["99999999999999999999", "1.5", "9223372036854775808"])), "number-out-of-range"),
        10 => (format!("SELECT {} FROM t", *t.pick(&["99999999999999999999", "1.2.3", "1e", "123456789012345678901234567890.5.5"])), "number-out-of-range"),
        _ => (format!("CREATE TABLE t({{ .a[{}] }} => x INT);", *t.pick(&["99999999999999999999", "1.5", "-1"])), "number-out-of-range"),
    }
}

fn crude_tokens(text: &str) -> usize {
    let mut n = 0;
    let mut in_word = false;
    for ch in text.chars() {
        if ch.is_alphanumeric() || ch == '_' {
            if !in_word {
                n += 1;
            }
            in_word = true;
        } else {
            in_word = false;
            if !ch.is_whitespace() {
                n += 1;
            }
        }
    }
    n
}

enum Outcome {
    Accepted,
    Rejected,
}

/// the C14 predicate on one text (used by the libFuzzer target as well)
pub fn check_text(text: &str) -> Result<(), Failure> {
    check_one(text).map(|_| ())
}

fn check_one(text: &str) -> Result<Outcome, Failure> {
    match catch(|| sqlgrep::parsing::parse(text)) {
        Err(p) => Err(Failure::new(format!("panic: {}", panic_class(&p)), format!("parse panicked on {:?}: {}", text, p))),
        Ok(Ok(_)) => Ok(Outcome::Accepted),
        Ok(Err(err)) => {
            let loc = err.location().clone();
            let lines: Vec<&str> = text.split('\n').collect();
            if loc.line >= lines.len() {
                return Err(Failure::new("location-outside-text: line", format!("error at line {} but the text {:?} has {} line(s)", loc.line, text, lines.len())));
            }
            let width = lines[loc.line].chars().count();
            if loc.column > width {
                return Err(Failure::new("location-outside-text: column", format!("error at {}:{} but that line of {:?} has {} characters", loc.line, loc.column, text, width)));
            }
            match catch(|| loc.extract_near(text)) {
                Ok(_) => Ok(Outcome::Rejected),
                Err(p) => Err(Failure::new(format!("extract_near panic: {}", panic_class(&p)), format!("the 'near' excerpt of the error at {}:{} in {:?} cannot be produced: {}", loc.line, loc.column, text, p))),
            }
        }
    }
}

pub const LONG_CHAIN_SIGNATURE: &str = "abort: a long operator chain without bracket nesting ends the process (stack overflow)"; // (also: long `[]` type suffix, long JSON path, CASE nested through ELSE)

/// child side of `--parse-probe <file>`: parse the text on the main thread (8 MiB stack) with the C14 predicate
pub fn parse_probe_main(path: &str) -> i32 {
    let text = match std::fs::read_to_string(path) {
        Ok(t) => t,
        Err(_) => return 2,
    };
    match check_text(&text) {
        Ok(()) => 0,
        Err(f) => {
            eprintln!("{} :: {}", f.signature, f.message);
            1
        }
    }
}

fn probe_in_child(text: &str, ctx: &Ctx) -> Result<(), Failure> {
    use std::os::unix::process::ExitStatusExt;
    let path = ctx.file("c14-probe.sql");
    crate::exec::write_file(&path, text.as_bytes());
    let output = match std::process::Command::new(crate::run::child_exe()).arg("--parse-probe").arg(&path).output() {
        Ok(o) => o,
        Err(e) => {
            eprintln!("cannot start the parse probe: {}", e);
            std::process::exit(2);
        }
    };
    let head: String = text.chars().take(80).collect();
    match output.status.code() {
        Some(0) => Ok(()),
        Some(1) => Err(Failure::new("long-chain: predicate", format!("{} ({} characters): {}", head, text.len(), String::from_utf8_lossy(&output.stderr).lines().last().unwrap_or("")))),
        Some(_) => {
            eprintln!("parse probe problem: {:?}", output.status);
            std::process::exit(2);
        }
        None => Err(Failure::new(
            LONG_CHAIN_SIGNATURE,
            format!("parsing `{}...` ({} characters, no bracket nesting) ended the process with signal {:?}: {}", head, text.len(), output.status.signal(), String::from_utf8_lossy(&output.stderr).lines().find(|l| l.contains("overflow")).unwrap_or("")),
        )),
    }
}

impl Property for C14 {
    type Case = Case;

    fn id(&self) -> &'static str {
        "C14"
    }

    fn rule(&self) -> String {
        "inputs from six generators: (a) random Unicode strings of all planes incl. NUL, combining marks, Unicode digits/whitespace; (b) token soups over the SQL vocabulary; \
         (c) valid statements with one token deleted / duplicated / swapped / replaced; (d) every character prefix and every token prefix of valid statements; (e) bracket / CASE / call / NOT / minus \
         nesting up to depth 200 (balanced and unbalanced); (g) one case in 400: an operator chain of 100 - 10 000 terms without bracket nesting, parsed in a child process of its own; (f) definitions invalid by construction (bad regex, empty JSON path, wrong aggregate arity, numbers out of range) which must be rejected. \
         Oracle: parse returns without panic; an error is located inside the text (line <= number of newlines, column <= characters of that line) and its 'near' excerpt can be produced. \
         Non-trivial: >= 3 crude tokens and (accepted, or rejected with a located error); distinct by text."
            .to_string()
    }

    fn assumptions(&self) -> Vec<String> {
        vec![
            "documented nesting bound of this check: depth 200 on an 8 MiB stack (the CLI's main-thread stack)".to_string(),
            "a stack overflow or abort is observed by the supervising parent process and re-judged in isolation".to_string(),
        ]
    }

    fn cases(&self, tier: Tier) -> u64 {
        match tier {
            Tier::Quick => 360_000,
            Tier::Thorough => 4_000_000,
        }
    }

    fn tape_len(&self) -> usize {
        700
    }

    fn supervised(&self) -> bool {
        true
    }

    fn label_floors(&self) -> Vec<(&'static str, f64)> {
        vec![("accepted", 0.05), ("rejected", 0.3), ("gen-prefixes", 0.05), ("gen-nesting", 0.03), ("gen-invalid-definition", 0.03)]
    }

    fn generate(&self, t: &mut Tape, ctx: &Ctx) -> Case {
        let mut case = Case { text: String::new(), kind: String::new(), all_prefixes: false, must_reject: false };
        if t.chance(1, 400) {
            // "any length": a long statement without bracket nesting - an operator chain of hundreds to thousands of terms
            case.kind = "long-chain".into();
            let mut n = *t.pick(&[100usize, 150, 400, 1000, 3000, 10000]);
            if ctx.excluded("c14_long_chain") {
                // open known finding: chains beyond a few hundred terms overflow the stack
                n = n.min(150);
            }
            match t.draw(9) {
                6 => {
                    // a column type with a long `[]` suffix (bracket nesting depth 1)
                    case.text = format!("CREATE TABLE t(line = '(.*)', line[1] => x INT{});", "[]".repeat(n * 10));
                    return case;
                }
                7 => {
                    // a long JSON path
                    case.text = format!("CREATE TABLE t({{ {} }} => x INT);", ".a".repeat(n * 10));
                    return case;
                }
                8 => {
                    // CASE nested through ELSE (no brackets at all)
                    let depth = n.min(3000);
                    case.text = format!("SELECT {}0{} FROM t", "CASE WHEN x = 1 THEN 1 ELSE ".repeat(depth), " END".repeat(depth));
                    return case;
                }
                _ => {}
            }
            let chain = match t.draw(6) {
                0 => (0..n).map(|i| format!("x = {}", i)).collect::<Vec<_>>().join(" OR "),
                1 => format!("x{}", " + 1".repeat(n)),
                2 => format!("{}x", "- ".repeat(n)),
                3 => format!("{}b", "NOT ".repeat(n)),
                4 => format!("x{}", "::int".repeat(n)),
                _ => (0..n).map(|i| format!("x != {}", i)).collect::<Vec<_>>().join(" AND "),
            };
            case.text = if t.chance(1, 2) { format!("SELECT x FROM t WHERE {}", chain) } else { format!("SELECT {} FROM t", chain) };
            return case;
        }
        if t.chance(1, 30) {
            case.kind = "aggregate-under".into();
            case.text = aggregate_under(t);
            return case;
        }
        if t.chance(1, 2000) {
            case.kind = "heavy-patterns".into();
            case.text = heavy_patterns(t);
            return case;
        }
        match t.weighted(&[2, 3, 4, 2, 1, 1, 1]) {
            0 => {
                case.kind = "unicode".into();
                let n = t.draw(300);
                case.text = (0..n).map(|_| random_char(t)).collect();
                if t.chance(1, 3) {
                    // a valid start followed by noise reaches deeper parser states
                    case.text = format!("SELECT {} FROM t WHERE {}", *t.pick(&["x", "*", "COUNT()"]), case.text);
                }
            }
            1 => {
                case.kind = "soup".into();
                case.text = soup(t);
                if t.chance(1, 2) {
                    case.text = format!("{} {}", *t.pick(&["SELECT", "SELECT x FROM t WHERE", "CREATE TABLE t(", "SELECT x FROM t", "CREATE TABLE t(line = 'a', line[1] => x"]), case.text);
                }
            }
            2 => {
                case.kind = "mutated".into();
                let mut tokens = valid_tokens(t, ctx);
                let n = tokens.len();
                let i = t.draw(n);
                match t.draw(5) {
                    0 => {
                        tokens.remove(i);
                    }
                    1 => {
                        let tk = tokens[i].clone();
                        tokens.insert(i, tk);
                    }
                    2 => {
                        let j = t.draw(n);
                        tokens.swap(i, j);
                    }
                    3 => tokens[i] = tok(*t.pick(&VOCAB), TokKind::Op),
                    _ => tokens[i] = tok(*t.pick(&VOCAB2), TokKind::Op),
                }
                case.text = if t.chance(1, 2) { join_canonical(&tokens) } else { join_tight(&tokens) };
            }
            3 => {
                case.kind = "prefixes".into();
                let tokens = valid_tokens(t, ctx);
                let mut dims = LayoutDims::default();
                case.text = if t.chance(1, 2) { apply_layout(t, &tokens, &mut dims, true) } else { join_canonical(&tokens) };
                case.all_prefixes = true;
            }
            4 => {
                case.kind = "token-prefix".into();
                let tokens = valid_tokens(t, ctx);
                let k = t.draw(tokens.len() + 1);
                case.text = join_canonical(&tokens[..k]);
            }
            5 => {
                case.kind = "nesting".into();
                case.text = nested(t);
            }
            _ => {
                let (text, _why) = invalid_definition(t);
                case.kind = "invalid-definition".into();
                case.text = text;
                case.must_reject = true;
            }
        }
        case
    }

    fn check(&self, case: &Case, _ctx: &Ctx, obs: &mut Obs) -> Result<(), Failure> {
        match case.kind.as_str() {
            "unicode" => obs.label("gen-unicode"),
            "soup" => obs.label("gen-soup"),
            "mutated" => obs.label("gen-mutated"),
            "prefixes" | "token-prefix" => obs.label("gen-prefixes"),
            "nesting" => obs.label("gen-nesting"),
            "invalid-definition" => obs.label("gen-invalid-definition"),
            "heavy-patterns" => obs.label("gen-heavy-patterns"),
            "aggregate-under" => obs.label("gen-aggregate-under"),
            _ => {}
        }
        if case.kind == "long-chain" {
            // parsed in a process of its own: a stack overflow there is an abort of that process, observed here
            obs.label("gen-long-chain");
            obs.nontrivial = true;
            return probe_in_child(&case.text, _ctx);
        }
        let outcome = check_one(&case.text)?;
        match outcome {
            Outcome::Accepted => {
                obs.label("accepted");
                if case.must_reject {
                    return Err(Failure::new("accepted-invalid", format!("{:?} is invalid by construction but was accepted", case.text)));
                }
            }
            Outcome::Rejected => obs.label("rejected"),
        }
        obs.nontrivial = crude_tokens(&case.text) >= 3;
        if case.all_prefixes {
            let mut end = 0;
            for ch in case.text.chars() {
                // prefix excluding `ch`
                obs.inner += 1;
                check_one(&case.text[..end])?;
                end += ch.len_utf8();
            }
        }
        Ok(())
    }
}
