//! C18 — output is deterministic and independent of hash seeds (byte equality across repetitions, processes, extra tables).

use serde::{Deserialize, Serialize};

use sqlgrep::executor::OutputFormat;

use crate::data::*;
use crate::exec::*;
use crate::run::{Ctx, Failure, Obs, Property, Tier};
use crate::sql::*;
use crate::stmt::*;
use crate::tape::Tape;
use crate::value::V;

#[derive(Clone, Debug, Serialize, Deserialize)]
pub struct Case {
    pub table: DataTable,
    pub joined: Option<DataTable>,
    /// unrelated tables that may be defined as well
    pub extra: Vec<DataTable>,
    pub query: Select,
    pub lines: Vec<String>,
    pub joined_lines: Vec<String>,
    /// also run in fresh child processes
    pub processes: bool,
    /// the input is the lines followed by the same lines once more (every row recurs after all the others)
    #[serde(default)]
    pub twice: bool,
}

pub struct C18;

#[derive(Serialize, Deserialize)]
pub struct RunJob {
    pub defs: String,
    pub query: String,
    pub files: Vec<String>,
    pub json: bool,
}

/// child side of `--run-job`
pub fn run_job_main(path: &str) -> i32 {
    let job: RunJob = match std::fs::read_to_string(path).ok().and_then(|t| serde_json::from_str(&t).ok()) {
        Some(j) => j,
        None => return 2,
    };
    let tables = match build_tables(&job.defs) {
        Ok(t) => t,
        Err(_) => return 2,
    };
    let statement = match parse_statement(&job.query) {
        Ok(s) => s,
        Err(_) => return 2,
    };
    let files: Vec<std::path::PathBuf> = job.files.iter().map(std::path::PathBuf::from).collect();
    let options = RunOptions { format: if job.json { OutputFormat::Json } else { OutputFormat::Text }, ..RunOptions::default() };
    match run_batch(&tables, &statement, &files, options) {
        Ok(out) => {
            for l in &out.lines {
                println!("{}", l);
            }
            println!("##RESULT {:?}", out.result);
            0
        }
        Err(_) => 3,
    }
}

/// `c0 [NOT] IN (...)` with repeated literals and, half of the time, a literal of another type somewhere in the list: whether a row
/// passes, fails or stops the run with a type error depends on the order in which the list is looked through - the listed one
fn in_list_filter(t: &mut Tape) -> E {
    let n = 3 + t.draw(5);
    let mut list: Vec<E> = (0..n).map(|_| E::Int(t.range(0, 4))).collect();
    let again = list[t.draw(list.len())].clone();
    list.insert(t.draw(list.len() + 1), again);
    if t.chance(1, 2) {
        list.insert(t.draw(list.len() + 1), E::Str("n/a".into()));
    }
    E::In { not: t.chance(1, 4), x: Box::new(E::col("c0")), list }
}

fn wide_table(t: &mut Tape, name: &str, prefix: &str, ncols: usize) -> DataTable {
    let mut cols = Vec::new();
    for i in 0..ncols {
        let ty = match i {
            0 => Ty::Int,
            1 => Ty::Text,
            _ => *t.pick(&[Ty::Int, Ty::Real, Ty::Text, Ty::Bool, Ty::Int]),
        };
        cols.push((format!("{}{}", prefix, i), ty));
    }
    if ncols >= 4 && t.chance(1, 25) {
        // a column name defined twice (the later definition is the one a name refers to)
        let from = 2 + t.draw(ncols - 2);
        let to = 2 + t.draw(ncols - 2);
        if from != to {
            cols[to].0 = cols[from].0.clone();
        }
    }
    DataTable { name: name.to_string(), json: t.chance(2, 3), cols, not_null: None, default_col: None }
}

fn many_lines(t: &mut Tape, table: &DataTable, n: usize, key_domain: i64) -> Vec<String> {
    (0..n)
        .map(|_| {
            let values: Vec<V> = table
                .cols
                .iter()
                .enumerate()
                .map(|(i, (_, ty))| {
                    if i == 0 {
                        V::Int(t.range(0, key_domain))
                    } else if i == 1 {
                        V::Text(format!("g{}", t.range(0, key_domain)))
                    } else if t.chance(1, 8) {
                        V::Null
                    } else if *ty == Ty::Real && t.chance(1, 5) {
                        // the two zeros are equal: containers keyed on values must not tell them apart
                        V::Real(if t.chance(1, 2) { 0.0 } else { -0.0 })
                    } else {
                        crate::props::c04::small_value(t, *ty)
                    }
                })
                .collect();
            table.line(&values, t)
        })
        .collect()
}

impl Property for C18 {
    type Case = Case;

    fn id(&self) -> &'static str {
        "C18"
    }

    fn rule(&self) -> String {
        "statements that push many items through every hash container on the output path: `*` over 8-12 columns, GROUP BY (COUNT / SUM / MIN / MAX / COUNT(DISTINCT) over any column incl. REALs with both zeros / ARRAY_AGG / array_unique(ARRAY_AGG) over nullable columns) with up to 30 groups (a third of them: up to 120 groups over 150-300 lines) and 4-6 aggregates, optional LIMIT / DISTINCT, groups must also come out in ascending key order, joins with 6-10 partners per key and `*` over both tables, \
         HAVING with hidden aggregates; one case in 250: PERCENTILE / COUNT(DISTINCT) over a single group of 10 000 - 16 000 spread-out values; one case in 1000: SELECT DISTINCT over 66 000 - 96 000 distinct rows that all recur afterwards; WHERE c0 [NOT] IN (list with repeated literals and possibly a literal of another type: rows, or rows and then a type error, by the listed order); now and then a column name defined twice; definitions with 0-6 extra unrelated tables in different positions, among them tables whose name differs from a used one only in letter case. Oracle: byte equality of the captured output (text and JSON) across 8 in-process repetitions (every HashMap gets a fresh \
         RandomState), the variants with extra tables added / reordered, and (a slice of cases) 4 fresh child processes. Non-trivial: output with >= 6 rows or >= 6 columns; distinct by case."
            .to_string()
    }

    fn assumptions(&self) -> Vec<String> {
        vec![
            "with m >= 6 items in a leaked hash order the chance that k independent runs agree by luck is <= (1/720)^(k-1); now() is never generated".to_string(),
        ]
    }

    fn cases(&self, tier: Tier) -> u64 {
        match tier {
            Tier::Quick => 12_000,
            Tier::Thorough => 150_000,
        }
    }

    fn shrink_iters(&self) -> u32 {
        400
    }

    fn tape_len(&self) -> usize {
        1500
    }

    fn generate(&self, t: &mut Tape, _ctx: &Ctx) -> Case {
        let ncols = 8 + t.draw(5);
        let table = wide_table(t, "t", "c", ncols);
        let mut joined = None;
        let mut joined_lines = Vec::new();
        let mut q = Select::simple(Vec::new(), "t");
        let lines;
        let mut twice = false;
        let mut force_processes = false;
        let mode = if t.chance(1, 250) { 3 } else if t.chance(1, 1000) { 4 } else if t.chance(1, 1000) { 5 } else { t.weighted(&[3, 4, 3]) };
        match mode {
            3 => {
                // one group with well over ten thousand spread-out values (sampling / approximate aggregates would show here)
                let n = 10_500 + t.draw(6_000);
                let step = 1 + 2 * t.draw(500) as i64;
                let modulus = 50_000 + t.draw(50_000) as i64;
                lines = (0..n as i64)
                    .map(|i| {
                        let values: Vec<V> = table.cols.iter().enumerate().map(|(c, (_, ty))| if c == 0 { V::Int((i * step) % modulus) } else if c == 1 { V::Text("g".into()) } else if *ty == Ty::Int { V::Int(i % 7) } else { V::Null }).collect();
                        table.line(&values, t)
                    })
                    .collect();
                q.items.push((E::Agg("PERCENTILE".into(), false, vec![E::col("c0"), E::Real("0.5".into())]), Some("median".into())));
                q.items.push((E::Agg("PERCENTILE".into(), false, vec![E::col("c0"), E::Real(format!("0.{}", 1 + t.draw(98)))]), Some("p".into())));
                q.items.push((E::Agg("COUNT".into(), true, vec![E::col("c0")]), Some("d".into())));
                q.items.push((E::Agg("COUNT".into(), false, vec![E::Star]), Some("n".into())));
            }
            4 => {
                // SELECT DISTINCT over far more distinct rows than any bounded memory of seen rows holds, each recurring later
                let n = 66_000 + t.draw(30_000);
                lines = (0..n as i64)
                    .map(|i| {
                        let values: Vec<V> = table.cols.iter().enumerate().map(|(c, _)| if c == 0 { V::Int(i) } else { V::Null }).collect();
                        table.line(&values, t)
                    })
                    .collect();
                twice = true;
                q.distinct = true;
                q.items.push((E::col("c0"), None));
            }
            5 => {
                // a joined file of tens of thousands of lines over three keys: every key has partners all over the file
                // (a loader that works in blocks or in parallel must still keep the partners in joined-file order)
                let rcols = 3 + t.draw(3);
                let right = wide_table(t, "u", "d", rcols);
                let m = 17_000 + t.draw(24_000);
                joined_lines = (0..m as i64)
                    .map(|i| {
                        let values: Vec<V> = right.cols.iter().enumerate().map(|(c, _)| if c == 0 { V::Int(i % 3) } else if c == 1 { V::Text(format!("r{}", i)) } else { V::Null }).collect();
                        right.line(&values, t)
                    })
                    .collect();
                lines = (0..3i64)
                    .map(|k| {
                        let values: Vec<V> = table.cols.iter().enumerate().map(|(c, _)| if c == 0 { V::Int(k) } else { V::Null }).collect();
                        table.line(&values, t)
                    })
                    .collect();
                let rkey = right.cols[0].0.clone();
                q.items.push((E::col("u.d1"), Some("partner".into())));
                q.join = Some(Join { outer: false, table: "u".into(), file: "JOINED".into(), left: ("t".into(), "c0".into()), right: ("u".into(), rkey) });
                if t.chance(1, 2) {
                    q.limit = Some(20 + t.draw(200) as u64);
                }
                joined = Some(right);
            }
            0 => {
                // `*` over many columns
                let n = 6 + t.draw(10);
                lines = many_lines(t, &table, n, 5);
                q.items.push((E::Star, None));
                if t.chance(1, 4) {
                    q.limit = Some(1 + t.draw(8) as u64);
                }
                if t.chance(1, 3) {
                    q.filter = Some(E::Is { not: true, l: Box::new(E::col("c0")), r: Box::new(E::Null) });
                } else if t.chance(1, 2) {
                    q.filter = Some(in_list_filter(t));
                } else if t.chance(1, 4) {
                    // a statement that ends with an error which names a function and its argument types (the message is output, too)
                    q.filter = Some(E::call(*t.pick(&["regex_matches", "regexp_matches", "array_cat", "length", "upper"]), vec![E::col("c0"), E::Str("a".into())]));
                    force_processes = true;
                }
            }
            1 => {
                // many groups, several aggregates, hidden aggregates in HAVING
                // now and then many more groups than any small-slice special case (e.g. of a selection algorithm) covers
                let big = t.chance(1, 3);
                let n = if big { 150 + t.draw(150) } else { 20 + t.draw(40) };
                lines = many_lines(t, &table, n, if big { 120 } else { 30 });
                if t.chance(1, 3) {
                    q.limit = Some(if big { 2 + t.draw(60) as u64 } else { 1 + t.draw(12) as u64 });
                }
                if t.chance(1, 6) {
                    q.distinct = true;
                }
                let key = if t.chance(1, 2) { "c0" } else { "c1" };
                q.group_by.push(E::col(key));
                if t.chance(1, 3) {
                    q.group_by.push(E::col("c2"));
                }
                q.items.push((E::col(key), None));
                let numeric: Vec<String> = table.cols.iter().filter(|c| matches!(c.1, Ty::Int | Ty::Real)).map(|c| c.0.clone()).collect();
                let n = 4 + t.draw(3);
                for i in 0..n {
                    let c = E::col(t.pick(&numeric).as_str());
                    let agg = match t.draw(8) {
                        6 => E::call("array_unique", vec![E::Agg("ARRAY_AGG".into(), false, vec![c])]),
                        7 => E::Agg("COUNT".into(), true, vec![E::col(t.pick(&table.cols.iter().map(|c| c.0.clone()).collect::<Vec<_>>()).as_str())]),
                        0 => E::Agg("COUNT".into(), false, vec![E::Star]),
                        1 => E::Agg("SUM".into(), false, vec![c]),
                        2 => E::Agg("MIN".into(), false, vec![c]),
                        3 => E::Agg("MAX".into(), false, vec![c]),
                        4 => E::Agg("COUNT".into(), true, vec![c]),
                        _ => E::Agg("ARRAY_AGG".into(), false, vec![E::col("c0")]),
                    };
                    q.items.push((agg, Some(format!("a{}", i))));
                }
                if t.chance(1, 5) {
                    q.filter = Some(in_list_filter(t));
                }
                if t.chance(1, 2) {
                    q.having = Some(E::bin(BinOp::And, E::bin(BinOp::Ge, E::Agg("COUNT".into(), false, vec![]), E::Int(1)), E::bin(BinOp::Ge, E::Agg("MAX".into(), false, vec![E::col("c0")]), E::Int(0))));
                }
            }
            _ => {
                // join with many partners per key
                let rcols = 4 + t.draw(4);
                let prefix = if t.chance(1, 2) { "c" } else { "d" };
                let right = wide_table(t, "u", prefix, rcols);
                let n = 3 + t.draw(5);
                lines = many_lines(t, &table, n, 2);
                let m = 15 + t.draw(20);
                joined_lines = many_lines(t, &right, m, 2);
                let rkey = right.cols[0].0.clone();
                q.join = Some(Join { outer: t.chance(1, 3), table: "u".into(), file: "JOINED".into(), left: ("t".into(), "c0".into()), right: ("u".into(), rkey) });
                q.items.push((E::Star, None));
                joined = Some(right);
            }
        }
        let nextra = t.draw(7);
        let mut extra: Vec<DataTable> = (0..nextra)
            .map(|i| {
                let n = 2 + t.draw(4);
                wide_table(t, &format!("x{}", i), "e", n)
            })
            .collect();
        // unrelated tables whose names differ from a used one only in letter case, or extend it
        if t.chance(1, 3) {
            let name = *t.pick(&["T", "U", "tt", "t2", "T_", "u_"]);
            let n = 2 + t.draw(4);
            let at = t.draw(extra.len() + 1);
            extra.insert(at, wide_table(t, name, "e", n));
        }
        Case { table, joined, extra, query: q, lines, joined_lines, processes: t.chance(1, 15) || force_processes, twice }
    }

    fn check(&self, case: &Case, ctx: &Ctx, obs: &mut Obs) -> Result<(), Failure> {
        let jpath = ctx.file("c18-joined.txt");
        write_file(&jpath, &lines_to_bytes(&case.joined_lines));
        let mut q = case.query.clone();
        if let Some(j) = q.join.as_mut() {
            j.file = jpath.to_string_lossy().to_string();
        }
        let text = q.text();
        let files = if case.twice {
            obs.label("distinct-over-60000-rows-recurring");
            let mut bytes = lines_to_bytes(&case.lines);
            bytes.extend(lines_to_bytes(&case.lines));
            scratch_files(ctx, "c18", &[bytes])
        } else {
            scratch_files(ctx, "c18", &[lines_to_bytes(&case.lines)])
        };
        let main_defs: Vec<String> = std::iter::once(case.table.definition()).chain(case.joined.iter().map(|j| j.definition())).collect();
        let defs_variant = |variant: usize| -> String {
            // 0: only the needed tables; 1: extras first; 2: extras last; 3: interleaved, reversed
            let extras: Vec<String> = case.extra.iter().map(|e| e.definition()).collect();
            let mut all: Vec<String> = match variant {
                0 => main_defs.clone(),
                1 => extras.iter().cloned().chain(main_defs.iter().cloned()).collect(),
                2 => main_defs.iter().cloned().chain(extras.iter().cloned()).collect(),
                _ => {
                    let mut v: Vec<String> = Vec::new();
                    let mut e = extras.iter().rev();
                    for d in main_defs.iter().rev() {
                        if let Some(x) = e.next() {
                            v.push(x.clone());
                        }
                        v.push(d.clone());
                    }
                    v.extend(e.cloned());
                    v
                }
            };
            if all.is_empty() {
                all = main_defs.clone();
            }
            all.join(" ")
        };
        let context = format!("query: {}\n  definitions: {}\n  {} input lines, {} joined lines", text, defs_variant(2), case.lines.len(), case.joined_lines.len());
        let kind = if case.query.join.is_some() { "join" } else if !case.query.group_by.is_empty() { "group-by" } else { "star" };
        let run = |defs: &str, json: bool| -> Result<RunOut, Failure> {
            let tables = build_tables(defs).map_err(|e| Failure::new("definition-rejected", format!("{}: {}", defs, e)))?;
            let statement = parse_statement(&text).map_err(|e| Failure::new("query-rejected", format!("`{}`: {}", text, e)))?;
            let options = RunOptions { format: if json { OutputFormat::Json } else { OutputFormat::Text }, ..RunOptions::default() };
            run_batch(&tables, &statement, &files, options).map_err(|p| Failure::new(format!("panic: {}", crate::run::panic_class(&p)), format!("panicked: {}\n  {}", p, context)))
        };
        for json in [true, false] {
            let base = run(&defs_variant(0), json)?;
            if json && case.query.group_by.len() == 1 && base.result.is_ok() {
                // groups in ascending key order (c0 is an INT, c1 a TEXT key; neither is ever NULL)
                let mut previous: Option<crate::value::J> = None;
                for (i, record) in base.records().iter().enumerate() {
                    let key = crate::value::parse_json(record).ok().and_then(|j| match j { crate::value::J::Obj(items) => items.first().map(|x| x.1.clone()), _ => None });
                    if let (Some(p), Some(k)) = (&previous, &key) {
                        let ascending = match (p, k) {
                            (crate::value::J::Num(a), crate::value::J::Num(b)) => a.parse::<i64>().ok() < b.parse::<i64>().ok(),
                            (crate::value::J::Str(a), crate::value::J::Str(b)) => a.as_bytes() < b.as_bytes(),
                            _ => true,
                        };
                        if !ascending {
                            return Err(Failure::new(
                                format!("group-by: keys-not-ascending{}", if case.query.limit.is_some() { "+limit" } else { "" }),
                                format!("record {} has key {:?} after key {:?}\n  {}", i, k, p, context),
                            ));
                        }
                    }
                    previous = key;
                }
            }
            let first = base.lines.first().cloned().unwrap_or_default();
            let ncols = if json { first.matches("\":").count() } else { first.matches(": ").count() };
            if base.lines.len() >= 6 || ncols >= 6 {
                obs.nontrivial = true;
            }
            for rep in 0..8 {
                obs.inner += 1;
                let variant = rep % 4;
                let again = run(&defs_variant(variant), json)?;
                if again.lines != base.lines || again.result != base.result {
                    let what = if variant == 0 { "repetition" } else { "extra-tables" };
                    let diff = base.lines.iter().zip(again.lines.iter()).position(|(a, b)| a != b).unwrap_or(base.lines.len().min(again.lines.len()));
                    return Err(Failure::new(
                        format!("{}: {}", kind, what),
                        format!("run {} ({} format, definitions variant {}) differs from the first run at record {}:\n    first: {:?}\n    now:   {:?}\n  {}", rep + 2, if json { "json" } else { "text" }, variant, diff, base.lines.get(diff), again.lines.get(diff), context),
                    ));
                }
            }
            if case.processes {
                obs.label("fresh-processes");
                let job = RunJob { defs: defs_variant(2), query: text.clone(), files: files.iter().map(|f| f.to_string_lossy().to_string()).collect(), json };
                let job_path = ctx.file("c18-job.json");
                std::fs::write(&job_path, serde_json::to_string(&job).unwrap()).expect("write job");
                let exe = crate::run::child_exe();
                for _ in 0..4 {
                    obs.inner += 1;
                    let output = std::process::Command::new(&exe).arg("--run-job").arg(&job_path).output().expect("spawn");
                    if !output.status.success() {
                        eprintln!("run-job child failed: {:?}", output.status);
                        std::process::exit(2);
                    }
                    let stdout = String::from_utf8_lossy(&output.stdout).to_string();
                    let mut lines: Vec<String> = stdout.lines().map(|l| l.to_string()).collect();
                    let trailer = lines.pop().unwrap_or_default();
                    if !trailer.starts_with("##RESULT") {
                        eprintln!("run-job child: no trailer");
                        std::process::exit(2);
                    }
                    // the text format prints values with embedded newlines only for TEXT we never generate
                    // (the message of an error is output too)
                    if trailer != format!("##RESULT {:?}", base.result) {
                        return Err(Failure::new(
                            format!("{}: fresh-process: error text", kind),
                            format!("a fresh process ends differently:\n    in-process: {:?}\n    child:      {}\n  {}", base.result, trailer, context),
                        ));
                    }
                    if lines != base.lines {
                        let diff = base.lines.iter().zip(lines.iter()).position(|(a, b)| a != b).unwrap_or(0);
                        return Err(Failure::new(
                            format!("{}: fresh-process", kind),
                            format!("a fresh process prints a different output; first difference at record {}:\n    in-process: {:?}\n    child:      {:?}\n  {}", diff, base.lines.get(diff), lines.get(diff), context),
                        ));
                    }
                }
            }
        }
        obs.label(match kind {
            "join" => "join",
            "group-by" => "group-by",
            _ => "star",
        });
        Ok(())
    }
}
