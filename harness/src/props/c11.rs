//! C11 — incremental (tail -f) results equal a batch run over the same prefix, for every prefix.

use serde::{Deserialize, Serialize};

use sqlgrep::execution::execution_engine::{ExecutionConfig, ExecutionEngine};
use sqlgrep::execution::ResultRow;
use sqlgrep::executor::{OutputFormat, OutputPrinter};

use crate::data::*;
use crate::exec::*;
use crate::gen_query::*;
use crate::props::c06::prepare;
use crate::run::{Ctx, Failure, Obs, Property, Tier};
use crate::sql::E;
use crate::stmt::*;
use crate::tape::Tape;

#[derive(Clone, Debug, Serialize, Deserialize)]
pub struct Case {
    pub table: DataTable,
    pub query: Select,
    pub lines: Vec<String>,
    /// additionally compare with the real FollowFileExecutor (child process)
    #[serde(default)]
    pub follow: bool,
    /// long history: the lines are repeated this many times and the batch comparison is made at the listed prefixes only
    #[serde(default)]
    pub long: Option<(usize, Vec<usize>)>,
    /// statements with a JOIN (engine level: the follow executor of the command line refuses them)
    #[serde(default)]
    pub joined: Option<DataTable>,
    #[serde(default)]
    pub joined_lines: Vec<String>,
}

pub struct C11;

fn print_rows(rr: &ResultRow) -> Vec<String> {
    let printer = CapPrinter { lines: Vec::new(), stop_after: None, running: Default::default() };
    let mut out = OutputPrinter::with_printer(printer, OutputFormat::Json);
    out.print(rr, true);
    out.printer().lines.clone()
}

impl Property for C11 {
    type Case = Case;

    fn id(&self) -> &'static str {
        "C11"
    }

    fn rule(&self) -> String {
        "a statement without LIMIT (plain, DISTINCT, aggregate +- GROUP BY +- HAVING +- DISTINCT, wrappers, a quarter with a JOIN) x 1-14 lines including non-admitted and filtered ones (one case in 25: the lines repeated to 150-1500, compared at eight prefixes). Oracle: one long-lived ExecutionEngine \
         fed line by line with the default (update + result) configuration, as follow mode does; for EVERY prefix k: aggregate: the table shown after line k (carried over when line k shows none) = the \
         records a fresh FileExecutor batch run prints for the first k lines; non-aggregate: the rows emitted for line k = the suffix by which batch(k) extends batch(k-1). \
         Non-trivial: an aggregate statement with >= 2 refreshes that show >= 2 rows, or a DISTINCT statement with a repeated tuple; distinct by case."
            .to_string()
    }

    fn assumptions(&self) -> Vec<String> {
        vec!["the incremental table is rendered through the real OutputPrinter (JSON) so that both sides are compared as printed records".to_string()]
    }

    fn cases(&self, tier: Tier) -> u64 {
        match tier {
            Tier::Quick => 75_000,
            Tier::Thorough => 800_000,
        }
    }

    fn shrink_iters(&self) -> u32 {
        3000
    }

    fn tape_len(&self) -> usize {
        700
    }

    fn label_floors(&self) -> Vec<(&'static str, f64)> {
        vec![("aggregate", 0.25), ("distinct", 0.1), ("having", 0.05)]
    }

    fn generate(&self, t: &mut Tape, ctx: &Ctx) -> Case {
        let mut opts = QOpts::all();
        opts.limit = false;
        opts.join_share = 2;
        let mut g = gen_query(t, ctx, opts);
        if ctx.excluded("c11_aggregate_distinct") && !g.query.group_by.is_empty() {
            g.query.distinct = false;
        }
        // a key that is written differently on different rows (1 and 1.0), an aggregate that is computed only when the table is
        // built (PERCENTILE) and one that may have no value on the group's first row (COUNT(c)), and nothing else: the group's name
        // is then settled at different moments by a line-by-line and by a batch run
        if g.query.group_by.iter().any(|k| matches!(k, E::Case(_, _))) && t.chance(1, 2) {
            let numeric: Vec<String> = g.table.cols.iter().filter(|c| matches!(c.1, Ty::Int | Ty::Real)).map(|c| c.0.clone()).collect();
            if !numeric.is_empty() {
                let x = E::col(t.pick(&numeric).as_str());
                let c = E::col(g.table.cols[t.draw(g.table.cols.len())].0.as_str());
                let keys = g.query.group_by.clone();
                g.query.items.retain(|(e, _)| keys.contains(e));
                if g.query.items.is_empty() {
                    g.query.items.push((keys[0].clone(), Some("k0".into())));
                }
                g.query.items.push((E::Agg("PERCENTILE".into(), false, vec![x, E::Real("0.5".into())]), Some("ap".into())));
                g.query.items.push((E::Agg("COUNT".into(), false, vec![c]), Some("ac".into())));
                g.query.having = None;
            }
        }
        let lines = crate::props::c04::gen_group_lines(t, &g.table, 14);
        let joined_lines = g.joined.as_ref().map(|j| gen_data(t, j, 8)).unwrap_or_default();
        if let Some(j) = g.query.join.as_mut() {
            // (what an OUTER JOIN means under an aggregate is C05's business; here only: line by line = batch)
            if t.chance(1, 3) {
                j.outer = true;
            }
        }
        let follow = g.joined.is_none() && t.chance(1, 30);
        let long = if !follow && lines.len() >= 3 && t.chance(1, 25) {
            // hundreds of refreshes: 150-1500 lines, compared at eight prefixes
            let repeat = (150 + t.draw(1350)) / lines.len() + 1;
            let n = lines.len() * repeat;
            let mut points: Vec<usize> = (0..6).map(|_| 1 + t.draw(n)).collect();
            points.push(n);
            points.push(n - 1);
            points.sort();
            points.dedup();
            Some((repeat, points))
        } else {
            None
        };
        Case { table: g.table, query: g.query, lines, follow, long, joined: g.joined, joined_lines }
    }

    fn check(&self, case: &Case, ctx: &Ctx, obs: &mut Obs) -> Result<(), Failure> {
        let p = prepare(ctx, &case.table, case.joined.as_ref(), &case.query, &case.joined_lines, "c11")?;
        if case.joined.is_some() {
            obs.label("join");
        }
        let context = format!("query: {}\n  table: {}\n  lines: {:?}", p.text, p.defs, case.lines);
        let panic_fail = |m: String| Failure::new(format!("panic: {}", crate::run::panic_class(&m)), format!("panicked: {}\n  {}", m, context));
        let aggregate = p.statement.is_aggregate();
        let kind = format!(
            "{}{}{}",
            if aggregate { "aggregate" } else { "select" },
            if case.query.having.is_some() { "+having" } else { "" },
            if case.query.distinct { "+distinct" } else { "" }
        );
        if aggregate {
            obs.label("aggregate");
        }
        if case.query.distinct {
            obs.label("distinct");
        }
        if case.query.having.is_some() {
            obs.label("having");
        }

        let lines: Vec<String> = match &case.long {
            Some((repeat, _)) => {
                obs.label("long-history");
                (0..*repeat).flat_map(|_| case.lines.iter().cloned()).collect()
            }
            None => case.lines.clone(),
        };
        let is_point = |k: usize| match &case.long {
            Some((_, points)) => points.contains(&k),
            None => true,
        };
        let mut engine = match crate::run::catch(|| ExecutionEngine::with_executed_joined_table(&p.tables, &p.statement)) {
            Ok(Ok(e)) => e,
            Ok(Err(e)) => {
                // the joined table cannot be set up: the batch run must fail as well
                let files = scratch_files(ctx, "c11", &[lines_to_bytes(&case.lines)]);
                let batch = run_batch(&p.tables, &p.statement, &files, RunOptions::default()).map_err(panic_fail)?;
                if batch.result.is_err() {
                    obs.unspecified += 1;
                    return Ok(());
                }
                return Err(Failure::new(format!("incremental-error-only: {}", kind), format!("the engine cannot be set up ({}) but the batch run succeeds\n  {}", e, context)));
            }
            Err(p) => return Err(panic_fail(p)),
        };
        // what the follow executor is expected to print: per refreshing line the table (aggregate) / the emitted rows
        let mut transcript: Vec<Vec<String>> = Vec::new();
        let mut shown: Vec<String> = Vec::new(); // aggregate: current table; select: all rows so far
        let mut refreshes_with_two_rows = 0;
        let batch_of = |k: usize| -> Result<RunOut, Failure> {
            let files = scratch_files(ctx, "c11", &[lines_to_bytes(&lines[..k])]);
            run_batch(&p.tables, &p.statement, &files, RunOptions::default()).map_err(panic_fail)
        };
        for k in 1..=lines.len() {
            obs.inner += 1;
            let inc = engine_line(&mut engine, &lines[k - 1], &ExecutionConfig::default()).map_err(panic_fail)?;
            let inc = match inc {
                Ok(lo) => lo,
                Err(e) => {
                    // the incremental path fails at line k: the batch over k lines must fail too
                    if batch_of(k)?.result.is_err() {
                        obs.unspecified += 1;
                        return Ok(());
                    }
                    return Err(Failure::new(format!("incremental-error-only: {}", kind), format!("line {}: incremental run fails ({}) but the batch run over the prefix succeeds\n  {}", k, e, context)));
                }
            };
            if let Some(rr) = &inc.result {
                let printed: Vec<String> = print_rows(rr).into_iter().filter(|l| !l.is_empty()).collect();
                if case.long.is_none() {
                    transcript.push(printed.clone());
                }
                if aggregate {
                    if printed.len() >= 2 {
                        refreshes_with_two_rows += 1;
                    }
                    shown = printed;
                } else {
                    shown.extend(printed);
                }
            }
            if !is_point(k) {
                continue;
            }
            let batch = batch_of(k)?;
            if batch.result.is_err() {
                return Err(Failure::new(format!("batch-error-only: {}", kind), format!("line {}: batch run over the prefix fails ({:?}) but the incremental run does not\n  {}", k, batch.result, context)));
            }
            let brec = batch.records();
            if shown != brec {
                if aggregate {
                    return Err(Failure::new(
                        format!("table-differs: {}", kind),
                        format!("after line {} the incremental table is {:?}\n  the batch run over the first {} lines prints {:?}\n  {}", k, shown, k, brec, context),
                    ));
                }
                // the rows emitted line by line so far = the records of the batch run over the prefix
                let common = shown.iter().zip(brec.iter()).take_while(|(a, b)| a == b).count();
                return Err(Failure::new(
                    format!("rows-differ: {}", kind),
                    format!("after line {} the rows emitted incrementally and the batch output over the prefix differ from record {} on:\n    incremental: {:?}\n    batch:       {:?}\n  {}", k, common, &shown[common..], &brec[common..], context),
                ));
            }
        }
        // a third driver of the public API: lines are fed with update only (as the batch executor does), the table is asked for
        // in the middle, at the end, and once more at the end - asking for the table does not change what the next table shows
        if aggregate && case.long.is_none() && case.joined.is_none() && !lines.is_empty() {
            if let Ok(Ok(mut engine)) = crate::run::catch(|| ExecutionEngine::with_executed_joined_table(&p.tables, &p.statement)) {
                let mid = lines.len() / 2;
                let mut snapshots: Vec<(usize, Vec<String>)> = Vec::new();
                let mut failed = false;
                for (k, line) in lines.iter().enumerate() {
                    if engine_line(&mut engine, line, &ExecutionConfig::aggregate_update()).map_err(panic_fail)?.is_err() {
                        failed = true;
                        break;
                    }
                    let asks = if k + 1 == lines.len() { 2 } else if k + 1 == mid { 1 } else { 0 };
                    for _ in 0..asks {
                        match engine_line(&mut engine, "", &ExecutionConfig::aggregate_result()).map_err(panic_fail)? {
                            Ok(lo) => snapshots.push((k + 1, lo.result.as_ref().map(|rr| print_rows(rr).into_iter().filter(|l| !l.is_empty()).collect()).unwrap_or_default())),
                            Err(_) => {
                                failed = true;
                                break;
                            }
                        }
                    }
                    if failed {
                        break;
                    }
                }
                if !failed {
                    for (k, shown) in snapshots {
                        let batch = batch_of(k)?;
                        if batch.result.is_ok() && shown != batch.records() {
                            return Err(Failure::new(
                                format!("snapshot-differs: {}", kind),
                                format!("lines fed with update only, the table asked for after line {} (also in the middle and twice at the end) is {:?}\n  the batch run over the first {} lines prints {:?}\n  {}", k, shown, k, batch.records(), context),
                            ));
                        }
                    }
                }
            }
        }
        // the real FollowFileExecutor (own process; refreshes are delimited by the clear-screen sequence)
        if case.follow {
            obs.label("follow-executor");
            let content: String = case.lines.iter().map(|l| format!("{}\n", l)).collect();
            let job = crate::follow_child::FollowJob {
                defs: p.defs.clone(),
                query: p.text.clone(),
                content,
                polls: Vec::new(),
                idle: Vec::new(),
                pre: 1,
                head: true,
                interrupt_at_probe: None,
                file: ctx.file("c11-follow.txt").to_string_lossy().to_string(),
                used_handle: 0,
            };
            let out = match crate::follow_child::run_follow(ctx, &job) {
                Ok(o) => o,
                Err(e) => {
                    eprintln!("follow child problem: {}", e);
                    std::process::exit(2);
                }
            };
            let got: Vec<Vec<String>> = if aggregate {
                out.stdout.split(crate::follow_child::CLEAR).skip(1).map(|chunk| chunk.lines().filter(|l| !l.is_empty()).map(|l| l.to_string()).collect()).collect()
            } else {
                vec![out.stdout.lines().filter(|l| !l.is_empty()).map(|l| l.to_string()).collect()]
            };
            let want: Vec<Vec<String>> = if aggregate { transcript.clone() } else { vec![transcript.iter().flatten().cloned().collect()] };
            if got != want || out.result.is_err() {
                return Err(Failure::new(
                    format!("follow-executor-differs: {}", kind),
                    format!("FollowFileExecutor printed {:?} ({:?})\n  the per-line engine (equal to the batch runs over every prefix) gives {:?}\n  {}", got, out.result, want, context),
                ));
            }
        }
        let repeated = !aggregate && case.query.distinct && {
            let mut q = case.query.clone();
            q.distinct = false;
            // repeated tuple: the plain statement prints more rows than the DISTINCT one
            match prepare(ctx, &case.table, case.joined.as_ref(), &q, &case.joined_lines, "c11") {
                Ok(pp) => {
                    let files = scratch_files(ctx, "c11", &[lines_to_bytes(&case.lines)]);
                    run_batch(&pp.tables, &pp.statement, &files, RunOptions::default()).map(|r| r.records().len() > shown.len()).unwrap_or(false)
                }
                Err(_) => false,
            }
        };
        obs.nontrivial = (aggregate && refreshes_with_two_rows >= 2) || repeated;
        Ok(())
    }
}
