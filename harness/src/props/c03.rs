//! C03 — SELECT/WHERE: one output row per qualifying row, evaluated on that row alone.
//!
//! Oracle: the reference evaluator (eval.rs) applied to the rows the real `extract` produced.

use std::collections::HashMap;

use serde::{Deserialize, Serialize};

use crate::data::*;
use crate::eval::*;
use crate::exec::*;
use crate::gen_typed::*;
use crate::props::c13::class;
use crate::run::{catch, Ctx, Failure, Obs, Property, Tier};
use crate::sql::*;
use crate::stmt::*;
use crate::tape::Tape;
use crate::value::*;

#[derive(Clone, Debug, Serialize, Deserialize)]
pub struct Case {
    pub table: DataTable,
    pub lines: Vec<String>,
    pub query: Select,
}

pub struct C03;

pub fn expr_signature(e: &E) -> String {
    match e {
        E::Bin(op, _, _) => format!("{}:{}", class(e), op.text()),
        E::Call(name, args) => format!("call:{}/{}", name, args.len()),
        E::Cast(_, ty) => format!("cast:{}", ty),
        E::Extract(p, _) => format!("extract:{}", p.to_lowercase()),
        E::In { not, .. } => (if *not { "not-in" } else { "in" }).to_string(),
        _ => class(e).to_string(),
    }
}

/// Admitted rows as the real extraction sees them: (line index, values in column order).
pub fn admitted_rows(tables: &sqlgrep::Tables, table: &str, lines: &[String]) -> Result<Vec<(usize, Vec<V>)>, String> {
    let def = tables.get(table).ok_or_else(|| format!("table {} missing", table))?;
    let mut out = Vec::new();
    for (i, line) in lines.iter().enumerate() {
        let row = catch(|| def.extract(line)).map_err(|p| format!("panic in extract: {}", p))?;
        if row.any_result() {
            out.push((i, row.columns.iter().map(V::from_real).collect()));
        }
    }
    Ok(out)
}

pub fn row_env(table: &DataTable, values: &[V], line: &str) -> HashMap<String, V> {
    let mut env = HashMap::new();
    for ((name, _), v) in table.cols.iter().zip(values.iter()) {
        env.insert(name.clone(), v.clone());
        env.insert(format!("{}.{}", table.name, name), v.clone());
    }
    env.insert("input".to_string(), V::Text(line.to_string()));
    env
}

pub fn output_names(items: &[(E, Option<String>)], star_names: &[String]) -> Vec<String> {
    if items.len() == 1 && items[0].0 == E::Star {
        return star_names.to_vec();
    }
    items
        .iter()
        .enumerate()
        .map(|(i, (e, alias))| match (alias, e) {
            (Some(a), _) => a.clone(),
            (None, E::Col(name)) => name.clone(),
            _ => format!("p{}", i),
        })
        .collect()
}

pub enum RowOutcome {
    Skip { or_err: bool },
    Emit { cells: Vec<Ev>, or_err: bool },
    Error { at: String },
    Unspec,
}

pub fn model_row(query: &Select, env: &HashMap<String, V>, star: &[V]) -> RowOutcome {
    let ev = Evaluator::new(env);
    let mut or_err = false;
    if let Some(f) = &query.filter {
        let w = ev.eval(f);
        or_err |= w.or_err;
        match &w.k {
            K::Err => return RowOutcome::Error { at: format!("where {}", expr_signature(f)) },
            K::Unspec => return RowOutcome::Unspec,
            K::Val(V::Bool(true)) => {}
            K::Val(V::Bool(false)) => return RowOutcome::Skip { or_err },
            K::Val(_) => return RowOutcome::Unspec,
        }
    }
    if query.items.len() == 1 && query.items[0].0 == E::Star {
        return RowOutcome::Emit { cells: star.iter().map(|v| Ev::val(v.clone())).collect(), or_err };
    }
    let mut cells = Vec::new();
    for (e, _) in &query.items {
        let c = ev.eval(e);
        or_err |= c.or_err;
        match &c.k {
            K::Err => return RowOutcome::Error { at: format!("projection {}", expr_signature(e)) },
            K::Unspec => return RowOutcome::Unspec,
            K::Val(V::Real(r)) if !r.is_finite() => return RowOutcome::Unspec,
            K::Val(_) => cells.push(c),
        }
    }
    RowOutcome::Emit { cells, or_err }
}

/// Compares the real output with the model outcomes of the qualifying-row candidates, in order.
/// `describe(i)` names candidate i in messages. Returns the number of unspecified stops.
pub fn compare_rows(names: &[String], outcomes: &[RowOutcome], real: &RunOut, exprs: &[&E], describe: &dyn Fn(usize) -> String) -> Result<u64, Failure> {
    let groups: Vec<usize> = (0..outcomes.len()).collect();
    compare_rows_grouped(names, outcomes, &groups, real, exprs, describe)
}

/// `groups[i]` = the input line candidate i stems from. The rows one input line produces (a join fan-out) are
/// printed together, so an error on one of them may withhold the line's earlier rows.
pub fn compare_rows_grouped(names: &[String], outcomes: &[RowOutcome], groups: &[usize], real: &RunOut, exprs: &[&E], describe: &dyn Fn(usize) -> String) -> Result<u64, Failure> {
    let records = real.records();
    let errored = real.result.is_err();
    let mut idx = 0usize;
    let mut err_allowed = false;
    let group_errs = |j: usize| outcomes.iter().zip(groups.iter()).any(|(o, g)| *g == groups[j] && matches!(o, RowOutcome::Error { .. } | RowOutcome::Unspec | RowOutcome::Emit { or_err: true, .. } | RowOutcome::Skip { or_err: true }));
    for (j, outcome) in outcomes.iter().enumerate() {
        match outcome {
            RowOutcome::Unspec => return Ok(1),
            RowOutcome::Skip { or_err } => {
                err_allowed |= *or_err;
            }
            RowOutcome::Error { at } => {
                if errored && idx == records.len() {
                    return Ok(0);
                }
                if idx < records.len() {
                    return Err(Failure::new(
                        format!("missing-error: {}", at),
                        format!("{}: the expression has no value here (an error must be reported), but a record was printed: {}", describe(j), records[idx]),
                    ));
                }
                return Err(Failure::new(format!("missing-error: {}", at), format!("{}: an error must be reported, but the query ended normally", describe(j))));
            }
            RowOutcome::Emit { cells, or_err } => {
                err_allowed |= *or_err;
                if idx >= records.len() {
                    if errored && (err_allowed || group_errs(j)) {
                        return Ok(0);
                    }
                    if errored {
                        return Err(Failure::new(
                            "unexpected-error".to_string(),
                            format!("{}: the query reported an error ({}) but this row has a value for every expression", describe(j), real.result.clone().err().unwrap_or_default()),
                        ));
                    }
                    return Err(Failure::new("row-missing".to_string(), format!("{}: qualifying row was not output ({} records printed)", describe(j), records.len())));
                }
                let rec = &records[idx];
                idx += 1;
                err_allowed = false;
                let parsed = match parse_json(rec) {
                    Ok(J::Obj(items)) => items,
                    other => return Err(Failure::new("undecodable-output", format!("record {:?}: {:?}", rec, other))),
                };
                let keys: Vec<&String> = parsed.iter().map(|(k, _)| k).collect();
                if keys != names.iter().collect::<Vec<_>>() {
                    return Err(Failure::new("column-names", format!("{}: record {} has keys {:?}, expected {:?}", describe(j), rec, keys, names)));
                }
                for (c, ((_, got), want)) in parsed.iter().zip(cells.iter()).enumerate() {
                    if let Err(e) = value_matches(want, got) {
                        let sig = exprs.get(c).map(|e| expr_signature(e)).unwrap_or_else(|| "star".to_string());
                        return Err(Failure::new(format!("value-mismatch: {}", sig), format!("{}: column {} of record {}: {}", describe(j), names[c], rec, e)));
                    }
                }
            }
        }
    }
    if idx < records.len() {
        return Err(Failure::new("extra-records".to_string(), format!("{} records printed but only {} rows qualify; first extra: {}", records.len(), idx, records[idx])));
    }
    if errored && !err_allowed {
        return Err(Failure::new(
            "unexpected-error".to_string(),
            format!("the query reported an error ({}) although every expression has a value on every row", real.result.clone().err().unwrap_or_default()),
        ));
    }
    Ok(0)
}

impl Property for C03 {
    type Case = Case;

    fn id(&self) -> &'static str {
        "C03"
    }

    fn rule(&self) -> String {
        "a typed table (JSON-path or regex flavour, INT/REAL/TEXT/BOOLEAN/TIMESTAMP/INTERVAL/arrays, optional NOT NULL column) x up to 12 lines with NULL in every position, boundary values and \
         non-admitted lines x a SELECT of 1-5 typed expressions (or `*`, `input`, qualified names, aliases) with optional WHERE; expressions of depth <= 4 over comparisons (same type, INT x REAL, \
         TIMESTAMP x text), IS [NOT] NULL, AND/OR/NOT, + - * /, unary minus, [NOT] IN with NULL elements, CASE, casts, EXTRACT, subscripts, every README function except now(); ~1 node in 28 ill-typed. \
         Oracle: reference evaluator over the rows the real extract produced: exactly the records of the rows before the first row without a value, then an error; names = alias | column | p<i>. \
         Non-trivial: >= 2 admitted rows and (WHERE true on some and false on other rows, or no WHERE and a non-literal projection); distinct by case."
            .to_string()
    }

    fn assumptions(&self) -> Vec<String> {
        vec![
            "rows are what the real TableDefinition::extract returns (extraction faults belong to C01/C02/C06)".to_string(),
            "expressions are rendered fully parenthesised (precedence faults belong to C13)".to_string(),
            "sub-cases neither the property nor the README fixes are counted as unspecified and not judged (DESIGN.md Appendix A)".to_string(),
            "TZ=UTC".to_string(),
        ]
    }

    fn cases(&self, tier: Tier) -> u64 {
        match tier {
            Tier::Quick => 900_000,
            Tier::Thorough => 2_000_000,
        }
    }

    fn tape_len(&self) -> usize {
        900
    }

    fn generate(&self, t: &mut Tape, ctx: &Ctx) -> Case {
        let table = gen_table(t, "t", "c", true);
        let hazard = t.chance(1, 5);
        let lines = gen_lines(t, &table, 12, hazard, true);
        let qualified = t.chance(1, 5);
        let mut cols: Vec<(String, Ty)> = table.cols.iter().map(|(n, ty)| (if qualified && t.chance(1, 2) { format!("t.{}", n) } else { n.clone() }, *ty)).collect();
        cols.push(("input".to_string(), Ty::Text));
        let scope = Scope { cols };
        let mut cfg = GenCfg::rich();
        cfg.hazard = hazard;
        let mut g = TypedGen::new(&scope, cfg, ctx);
        let mut q = Select::simple(Vec::new(), "t");
        match t.weighted(&[10, 1, 1]) {
            0 => {
                let n = 1 + t.draw(5);
                for i in 0..n {
                    let ty = *t.pick(&[Ty::Int, Ty::Int, Ty::Real, Ty::Text, Ty::Bool, Ty::Ts, Ty::Iv, Ty::IntArr, Ty::TextArr]);
                    let depth = t.draw(5);
                    let e = g.gen(t, ty, depth);
                    // output names must be distinct: every bare column after the first use gets an alias
                    let dup = matches!(&e, E::Col(n) if q.items.iter().any(|(o, a)| a.is_none() && matches!(o, E::Col(m) if m == n)));
                    let alias = if dup || t.chance(1, 3) { Some(format!("r{}", i)) } else { None };
                    q.items.push((e, alias));
                }
            }
            1 => q.items.push((E::Star, None)),
            _ => q.items.push((E::col("input"), None)),
        }
        if t.chance(2, 3) {
            let depth = 1 + t.draw(4);
            q.filter = Some(g.gen(t, Ty::Bool, depth));
        }
        Case { table, lines, query: q }
    }

    fn check(&self, case: &Case, ctx: &Ctx, obs: &mut Obs) -> Result<(), Failure> {
        let defs = case.table.definition();
        let tables = match build_tables(&defs) {
            Ok(t) => t,
            Err(e) => return Err(Failure::new("definition-rejected", format!("{}: {}", defs, e))),
        };
        let text = case.query.text();
        let statement = match parse_statement(&text) {
            Ok(s) => s,
            Err(e) => {
                let first = case.query.items.iter().map(|i| &i.0).chain(case.query.filter.iter()).find_map(|e| {
                    let mut found = None;
                    e.visit(&mut |n| {
                        if found.is_none() {
                            if let E::Call(name, args) = n {
                                found = Some(format!("call:{}/{}", name, args.len()));
                            }
                        }
                    });
                    found
                });
                return Err(Failure::new(format!("query-rejected: {}", first.unwrap_or_default()), format!("`{}`: {}", text, e)));
            }
        };
        let rows = admitted_rows(&tables, "t", &case.lines).map_err(|e| Failure::new("panic: extract", e))?;
        let star_names: Vec<String> = case.table.cols.iter().map(|c| c.0.clone()).collect();
        let names = output_names(&case.query.items, &star_names);
        let outcomes: Vec<RowOutcome> = rows.iter().map(|(i, values)| model_row(&case.query, &row_env(&case.table, values, &case.lines[*i]), values)).collect();

        let files = scratch_files(ctx, "c03", &[lines_to_bytes(&case.lines)]);
        let real = run_batch(&tables, &statement, &files, RunOptions::default()).map_err(|p| {
            let root = case.query.filter.as_ref().map(expr_signature).unwrap_or_default();
            Failure::new(format!("panic: {}", crate::run::panic_class(&p)), format!("`{}` panicked: {} (where root {})", text, p, root))
        })?;

        let emits = outcomes.iter().filter(|o| matches!(o, RowOutcome::Emit { .. })).count();
        let skips = outcomes.iter().filter(|o| matches!(o, RowOutcome::Skip { .. })).count();
        let nonliteral = case.query.items.iter().any(|(e, _)| {
            let mut has_col = false;
            e.visit(&mut |n| {
                if matches!(n, E::Col(_) | E::Star) {
                    has_col = true;
                }
            });
            has_col
        });
        obs.nontrivial = rows.len() >= 2 && ((emits >= 1 && skips >= 1) || (case.query.filter.is_none() && nonliteral));
        if outcomes.iter().any(|o| matches!(o, RowOutcome::Error { .. })) {
            obs.label("error-row");
        }
        if outcomes.iter().any(|o| matches!(o, RowOutcome::Emit { cells, .. } if cells.iter().any(|c| c.k == K::Val(V::Null)))) {
            obs.label("null-cell");
        }
        if rows.len() < case.lines.len() {
            obs.label("non-admitted-lines");
        }
        if case.query.filter.is_some() {
            obs.label("where");
        }

        let exprs: Vec<&E> = case.query.items.iter().map(|i| &i.0).collect();
        let describe = |j: usize| format!("`{}` on line {:?} of table {}", text, case.lines[rows[j].0], defs);
        match compare_rows(&names, &outcomes, &real, &exprs, &describe) {
            Ok(unspec) => {
                obs.unspecified += unspec;
                if unspec > 0 {
                    obs.label("unspecified-stop");
                }
                Ok(())
            }
            Err(mut f) => {
                if f.signature == "row-missing" || f.signature == "extra-records" || f.signature == "unexpected-error" {
                    let root = case.query.filter.as_ref().map(expr_signature).unwrap_or_else(|| "no-where".to_string());
                    f.signature = format!("{}: where {}", f.signature, root);
                }
                f.message = format!("{}\n  query: {}\n  table: {}\n  lines: {:?}", f.message, text, defs, case.lines);
                Err(f)
            }
        }
    }
}
