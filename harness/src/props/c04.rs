//! C04 — GROUP BY: one row per group, every aggregate computed from that group's rows.

use serde::{Deserialize, Serialize};

use crate::data::*;
use crate::exec::*;
use crate::gen_typed::*;
use crate::model_agg::*;
use crate::props::c03::{admitted_rows, row_env};
use crate::run::{Ctx, Failure, Obs, Property, Tier};
use crate::sql::*;
use crate::stmt::*;
use crate::tape::Tape;
use crate::value::*;

#[derive(Clone, Debug, Serialize, Deserialize)]
pub struct Case {
    pub table: DataTable,
    pub lines: Vec<String>,
    pub query: Select,
    /// the NaN slice: (group key, value text) rows for `SELECT g, MIN(r), MAX(r), COUNT(r) FROM n GROUP BY g` over a REAL column fed as text
    #[serde(default)]
    pub nan_rows: Option<Vec<(u8, String)>>,
    /// the accuracy slice: (group key, REAL text, INT text) rows for VARIANCE / STDDEV / AVG / SUM over values that are not dyadic or far from zero
    #[serde(default)]
    pub var_rows: Option<Vec<(u8, String, String)>>,
    /// the rank slice: PERCENTILE over n distinct integers from a start value, for these fractions (decimal texts)
    #[serde(default)]
    pub rank: Option<(u32, i64, Vec<String>)>,
}

pub struct C04;

/// small domains so that groups form
pub fn small_value(t: &mut Tape, ty: Ty) -> V {
    match ty {
        Ty::Int => V::Int(t.range(0, 3)),
        Ty::Real => V::Real(t.range(-4, 8) as f64 / 4.0),
        Ty::Text => V::Text(t.pick(&["a", "b", "ab", "", "B"]).to_string()),
        Ty::Bool => V::Bool(t.chance(1, 2)),
        Ty::Ts => V::Ts((1_600_000_000 + t.range(0, 3) * 86_400) * 1_000_000),
        Ty::Iv => V::Iv(t.range(0, 3) * 3_600_000_000),
        other => gen_value(t, other, true, false),
    }
}

/// values over a domain wide enough for dozens of groups
pub fn wide_value(t: &mut Tape, ty: Ty) -> V {
    match ty {
        Ty::Int => V::Int(t.range(-5, 60)),
        Ty::Real => V::Real(t.range(-40, 80) as f64 / 4.0),
        Ty::Text => V::Text(format!("k{}", t.range(0, 40))),
        other => small_value(t, other),
    }
}

pub fn gen_wide_lines(t: &mut Tape, table: &DataTable, max_rows: usize) -> Vec<String> {
    let n = t.draw(max_rows + 1);
    (0..n)
        .map(|_| {
            let values: Vec<V> = table.cols.iter().map(|(_, ty)| if t.chance(1, 8) { V::Null } else { wide_value(t, *ty) }).collect();
            table.line(&values, t)
        })
        .collect()
}

pub fn gen_group_lines(t: &mut Tape, table: &DataTable, max_rows: usize) -> Vec<String> {
    let n = t.draw(max_rows + 1);
    let mut lines = Vec::new();
    for _ in 0..n {
        if t.chance(1, 12) {
            lines.push(t.pick(&["", "noise", "{}"]).to_string());
            continue;
        }
        let values: Vec<V> = table.cols.iter().map(|(_, ty)| if t.chance(1, 4) { V::Null } else { small_value(t, *ty) }).collect();
        lines.push(table.line(&values, t));
    }
    lines
}

pub struct AggGen<'a> {
    pub table: &'a DataTable,
    pub ctx: &'a Ctx,
    pub excluded: u64,
}

impl<'a> AggGen<'a> {
    fn col_of(&self, t: &mut Tape, tys: &[Ty]) -> Option<E> {
        let cols: Vec<&str> = self.table.cols.iter().filter(|c| tys.contains(&c.1)).map(|c| c.0.as_str()).collect();
        if cols.is_empty() {
            None
        } else {
            Some(E::col(*t.pick(&cols)))
        }
    }

    /// a value that is an INT on some rows and a REAL on others (half of the time of the same numeric value: 1 and 1.0)
    fn mixed_numeric(&self, t: &mut Tape) -> Option<E> {
        let c = self.col_of(t, &[Ty::Int])?;
        let int = t.range(0, 2);
        let real = if t.chance(1, 2) { E::Real(format!("{}.0", int)) } else { E::Real(t.pick(&["0.5", "1.5", "0.0", "1.0", "2.0"]).to_string()) };
        let (a, b) = if t.chance(1, 2) { (E::Int(int), real) } else { (real, E::Int(int)) };
        Some(E::Case(vec![(E::bin(BinOp::Gt, c, E::Int(t.range(0, 2))), a)], Box::new(b)))
    }

    fn numeric_arg(&self, t: &mut Tape) -> E {
        if t.chance(1, 12) {
            if let Some(e) = self.mixed_numeric(t) {
                return e;
            }
        }
        let c = self.col_of(t, &[Ty::Int, Ty::Real]).unwrap_or(E::Int(1));
        let ty = if let E::Col(n) = &c { self.table.cols.iter().find(|x| &x.0 == n).map(|x| x.1) } else { None };
        if t.chance(1, 5) {
            match ty {
                Some(Ty::Int) => E::bin(*t.pick(&[BinOp::Add, BinOp::Mul, BinOp::Sub]), c, E::Int(t.range(1, 3))),
                Some(Ty::Real) => E::bin(*t.pick(&[BinOp::Add, BinOp::Mul]), c, E::Real("0.5".into())),
                _ => c,
            }
        } else {
            c
        }
    }

    /// One aggregate call. `order_sensitive` allows STRING_AGG / ARRAY_AGG.
    pub fn aggregate(&mut self, t: &mut Tape, order_sensitive: bool) -> E {
        let agg = |n: &str, args: Vec<E>| E::Agg(n.to_string(), false, args);
        let kinds = if order_sensitive { 13 } else { 11 };
        match t.draw(kinds) {
            0 => agg("COUNT", if t.chance(1, 2) { vec![] } else { vec![E::Star] }),
            1 => agg("COUNT", vec![self.col_of(t, &[Ty::Int, Ty::Real, Ty::Text, Ty::Bool, Ty::Ts, Ty::Iv]).unwrap_or(E::Star)]),
            2 => match self.col_of(t, &[Ty::Int, Ty::Text, Ty::Bool]) {
                Some(c) => E::Agg("COUNT".into(), true, vec![c]),
                None => agg("COUNT", vec![]),
            },
            3 => agg("SUM", vec![if t.chance(1, 6) { self.col_of(t, &[Ty::Iv]).unwrap_or_else(|| self.numeric_arg(t)) } else { self.numeric_arg(t) }]),
            4 | 5 => {
                let name = if t.chance(1, 2) { "MIN" } else { "MAX" };
                let tys: &[Ty] = if self.ctx.excluded("c04_minmax_nonnumeric") { &[Ty::Int, Ty::Real, Ty::Iv] } else { &[Ty::Int, Ty::Real, Ty::Text, Ty::Ts, Ty::Iv, Ty::Bool] };
                // (one in ten over a value that is an INT on some rows and a REAL on others)
                let arg = if t.chance(1, 10) { self.mixed_numeric(t) } else { None };
                agg(name, vec![arg.or_else(|| self.col_of(t, tys)).unwrap_or(E::Int(1))])
            }
            6 => agg("AVG", vec![self.numeric_arg(t)]),
            7 => agg(if t.chance(1, 2) { "STDDEV" } else { "VARIANCE" }, vec![self.numeric_arg(t)]),
            8 => {
                let p = match t.draw(6) {
                    0 => "0.0".to_string(),
                    1 => "0.25".to_string(),
                    2 => "0.5".to_string(),
                    3 => "0.9".to_string(),
                    4 => {
                        if self.ctx.excluded("c04_percentile_one") {
                            self.excluded += 1;
                            "0.99".to_string()
                        } else {
                            "1.0".to_string()
                        }
                    }
                    _ => format!("0.{}", t.range(1, 99)),
                };
                // (one in four over an expression, which may give an INT on some rows and an equal REAL on others)
                let arg = match t.draw(8) {
                    0 => self.mixed_numeric(t),
                    1 => Some(self.numeric_arg(t)),
                    _ => None,
                };
                let arg = arg.or_else(|| self.col_of(t, &[Ty::Int, Ty::Real, Ty::Text])).unwrap_or(E::Int(1));
                agg("PERCENTILE", vec![arg, E::Real(p)])
            }
            9 | 10 => {
                // (one in five: a regular expression that is itself a value of the row - compiled per row, not per statement)
                let per_row_pattern = if t.chance(1, 5) { self.col_of(t, &[Ty::Text]).and_then(|subject| self.col_of(t, &[Ty::Text]).map(|pattern| E::call("regexp_matches", vec![subject, pattern]))) } else { None };
                if let Some(arg) = per_row_pattern {
                    return agg(if t.chance(1, 2) { "BOOL_AND" } else { "BOOL_OR" }, vec![arg]);
                }
                let arg = match self.col_of(t, &[Ty::Bool]) {
                    Some(c) if !t.chance(1, 3) => c,
                    _ => E::bin(*t.pick(&[BinOp::Gt, BinOp::Eq, BinOp::Le]), self.col_of(t, &[Ty::Int]).unwrap_or(E::Int(1)), E::Int(t.range(0, 2))),
                };
                agg(if t.chance(1, 2) { "BOOL_AND" } else { "BOOL_OR" }, vec![arg])
            }
            11 => agg("STRING_AGG", vec![self.col_of(t, &[Ty::Text]).unwrap_or(E::Str("x".into())), E::Str(t.pick(&[",", ", ", "", "|"]).to_string())]),
            _ => agg("ARRAY_AGG", vec![self.col_of(t, &[Ty::Int, Ty::Text, Ty::Real, Ty::Bool]).unwrap_or(E::Int(1))]),
        }
    }

    pub fn wrapped(&mut self, t: &mut Tape, agg: E) -> E {
        let numeric = matches!(&agg, E::Agg(n, _, _) if ["COUNT", "SUM"].contains(&n.as_str()));
        let count = matches!(&agg, E::Agg(n, _, _) if n == "COUNT");
        // wrappers whose result depends on the type of the aggregate's value, not only on its number
        // a ratio whose denominator is an aggregate (zero for some prefixes of the input only: an error then, a value later)
        if matches!(&agg, E::Agg(n, _, _) if ["SUM", "COUNT"].contains(&n.as_str())) && t.chance(1, 12) {
            return match t.draw(2) {
                0 => E::bin(BinOp::Div, E::Int(100), agg),
                _ => E::bin(BinOp::Div, E::Int(100), E::bin(BinOp::Sub, agg, E::Int(t.range(1, 2)))),
            };
        }
        let mixed_arg = matches!(&agg, E::Agg(_, _, args) if matches!(args.first(), Some(E::Case(_, _))));
        if matches!(&agg, E::Agg(n, _, _) if ["SUM", "AVG", "MIN", "MAX", "COUNT"].contains(&n.as_str())) && t.chance(1, if mixed_arg { 2 } else { 8 }) {
            let summing = matches!(&agg, E::Agg(n, _, _) if ["SUM", "AVG", "COUNT"].contains(&n.as_str()));
            return match t.draw(3) {
                0 if summing => E::Neg(Box::new(agg)),
                1 if summing => E::bin(BinOp::Add, agg, E::Int(1)),
                _ => E::cast(agg, "TEXT"),
            };
        }
        if !numeric || !t.chance(1, 4) {
            return agg;
        }
        match t.draw(4) {
            0 if count => E::bin(*t.pick(&[BinOp::Add, BinOp::Mul, BinOp::Sub]), agg, E::Int(t.range(1, 3))),
            1 if count => E::bin(*t.pick(&[BinOp::Add, BinOp::Mul, BinOp::Sub]), E::Int(t.range(1, 3)), agg),
            2 => E::call("abs", vec![agg]),
            _ if count => E::bin(BinOp::Gt, agg, E::Int(t.range(0, 2))),
            _ => agg,
        }
    }

    pub fn group_key(&mut self, t: &mut Tape) -> E {
        if t.chance(1, 14) {
            // a key that is an INT on some rows and a REAL (possibly of the same value: one group) on others
            if let Some(e) = self.mixed_numeric(t) {
                return e;
            }
        }
        let c = self.col_of(t, &[Ty::Int, Ty::Text, Ty::Bool, Ty::Real, Ty::Ts]).unwrap_or(E::Int(1));
        let ty = if let E::Col(n) = &c { self.table.cols.iter().find(|x| &x.0 == n).map(|x| x.1) } else { None };
        if t.chance(1, 5) {
            match ty {
                Some(Ty::Int) => E::bin(*t.pick(&[BinOp::Add, BinOp::Div, BinOp::Mul]), c, E::Int(2)),
                Some(Ty::Text) => E::call("upper", vec![c]),
                _ => c,
            }
        } else {
            c
        }
    }
}

pub fn gen_aggregate_query(t: &mut Tape, table: &DataTable, ctx: &Ctx, order_sensitive: bool, excluded: &mut u64) -> Select {
    let mut g = AggGen { table, ctx, excluded: 0 };
    let mut q = Select::simple(Vec::new(), &table.name);
    let nkeys = t.weighted(&[2, 5, 2]);
    for _ in 0..nkeys {
        let k = g.group_key(t);
        if !q.group_by.contains(&k) {
            q.group_by.push(k);
        }
    }
    let mut items: Vec<(E, Option<String>)> = Vec::new();
    for (i, k) in q.group_by.iter().enumerate() {
        if t.chance(3, 4) {
            let alias = if matches!(k, E::Col(_)) && t.chance(1, 2) { None } else { Some(format!("k{}", i)) };
            let mut item = k.clone();
            if let E::Bin(op, l, r) = k {
                if **r == E::Int(2) && t.chance(1, 5) {
                    // almost the key expression: the INT literal written as a REAL (another expression, hence not a group key)
                    item = E::Bin(*op, l.clone(), Box::new(E::Real("2.0".into())));
                }
            }
            items.push((item, alias));
        }
    }
    let naggs = if ctx.excluded("c04_keys_only") { 1 + t.draw(3) } else { t.weighted(&[1, 6, 4, 2]) };
    for i in 0..naggs {
        let a = g.aggregate(t, order_sensitive);
        let a = g.wrapped(t, a);
        items.push((a, Some(format!("a{}", i))));
    }
    if items.is_empty() {
        items.push((E::Agg("COUNT".into(), false, vec![]), Some("a0".into())));
    }
    // now and then a wrapper that combines a COUNT with a plain INT key column (SUM(x) + k): the right value or an error
    let int_keys: Vec<String> = q.group_by.iter().filter_map(|k| if let E::Col(n) = k { if table.cols.iter().any(|c| &c.0 == n && c.1 == Ty::Int) { Some(n.clone()) } else { None } } else { None }).collect();
    if !int_keys.is_empty() && t.chance(1, 8) {
        for (e, _) in items.iter_mut() {
            if matches!(e, E::Agg(n, _, _) if n == "COUNT") {
                let key = E::col(t.pick(&int_keys).as_str());
                let agg = e.clone();
                *e = match t.draw(4) {
                    0 => E::bin(*t.pick(&[BinOp::Add, BinOp::Mul, BinOp::Sub]), agg, key),
                    1 => E::bin(*t.pick(&[BinOp::Add, BinOp::Mul, BinOp::Sub]), key, agg),
                    2 => E::call("greatest", vec![key, agg]),
                    _ => E::bin(BinOp::Gt, agg, key),
                };
                break;
            }
        }
    }
    t.shuffle(&mut items);
    q.items = items;
    if ctx.excluded("c04_group_without_entry") && !creates_entry(&q) {
        // open finding F09b: keep the search away from statements in which no aggregate is guaranteed a value per group
        g.excluded += 1;
        q.items.push((E::Agg("COUNT".into(), false, vec![E::Star]), Some("an".into())));
    }
    if t.chance(1, 3) {
        let scope = Scope { cols: table.cols.clone() };
        let mut tg = TypedGen::new(&scope, GenCfg::plain(), ctx);
        q.filter = Some(tg.gen(t, Ty::Bool, 2));
        // (one filter in eight: a regular expression taken from the row itself)
        if t.chance(1, 8) {
            if let (Some(subject), Some(pattern)) = (g.col_of(t, &[Ty::Text]), g.col_of(t, &[Ty::Text])) {
                q.filter = Some(E::call("regexp_matches", vec![subject, pattern]));
            }
        }
    }
    if t.chance(1, 3) {
        let nterms = 1 + t.weighted(&[5, 3, 2]);
        let mut having: Option<E> = None;
        for _ in 0..nterms {
            let term = having_term(t, &mut g, table, &q);
            having = Some(match having {
                None => term,
                Some(h) => E::bin(if t.chance(2, 3) { BinOp::And } else { BinOp::Or }, h, term),
            });
        }
        let mut h = having.unwrap();
        // reference to a plain-column key
        let plain: Vec<E> = q.group_by.iter().filter(|k| matches!(k, E::Col(_))).cloned().collect();
        if !plain.is_empty() && t.chance(1, 3) {
            let k = t.pick(&plain).clone();
            h = E::bin(if t.chance(1, 2) { BinOp::And } else { BinOp::Or }, h, E::Is { not: true, l: Box::new(k), r: Box::new(E::Null) });
        }
        q.having = Some(h);
    }
    *excluded += g.excluded;
    q
}

/// one HAVING term: an aggregate (half of the time one that also occurs in the select list) compared with a literal
fn having_term(t: &mut Tape, g: &mut AggGen, table: &DataTable, q: &Select) -> E {
    {
        let shared: Vec<E> = q.items.iter().filter_map(|(e, _)| if let E::Agg(n, _, _) = e { if n != "STRING_AGG" && n != "ARRAY_AGG" { Some(e.clone()) } else { None } } else { None }).collect();
        let a = if !shared.is_empty() && t.chance(1, 2) { t.pick(&shared).clone() } else { g.aggregate(t, false) };
        let lit = match &a {
            E::Agg(n, _, args) if n == "MIN" || n == "MAX" || n == "PERCENTILE" => {
                // compare with a literal of the argument's type
                let ty = if let Some(E::Col(c)) = args.first() { table.cols.iter().find(|x| &x.0 == c).map(|x| x.1) } else { None };
                match ty {
                    Some(Ty::Int) => Some(E::Int(t.range(0, 3))),
                    Some(Ty::Real) => Some(E::Real("0.5".into())),
                    Some(Ty::Text) => Some(E::Str("a".into())),
                    _ => None,
                }
            }
            E::Agg(n, _, _) if n == "COUNT" => Some(E::Int(t.range(0, 3))),
            E::Agg(n, _, args) if n == "SUM" => {
                let ty = if let Some(E::Col(c)) = args.first() { table.cols.iter().find(|x| &x.0 == c).map(|x| x.1) } else { None };
                match ty {
                    Some(Ty::Int) => Some(E::Int(t.range(0, 5))),
                    Some(Ty::Real) => Some(E::Real("1.5".into())),
                    _ => None,
                }
            }
            E::Agg(n, _, _) if n == "BOOL_AND" || n == "BOOL_OR" => Some(E::True),
            _ => None,
        };
        match lit {
            Some(E::True) => a,
            Some(l) => E::bin(*t.pick(&BinOp::CMP), a, l),
            None => E::bin(BinOp::Ge, E::Agg("COUNT".into(), false, vec![]), E::Int(t.range(0, 2))),
        }
    }
}

/// Does the statement contain an aggregate that has a value entry in every group that receives a row
/// (COUNT(*), SUM, AVG, STDDEV, VARIANCE, MIN, MAX, ARRAY_AGG)? Known finding F09b: without one, a group whose
/// other aggregates see only NULLs is dropped from the table.
pub fn creates_entry(query: &Select) -> bool {
    let mut found = false;
    let mut look = |e: &E| {
        e.visit(&mut |n| {
            if let E::Agg(name, _, args) = n {
                let name = name.to_ascii_uppercase();
                if (name == "COUNT" && (args.is_empty() || args[0] == E::Star)) || ["SUM", "AVG", "STDDEV", "VARIANCE", "MIN", "MAX", "ARRAY_AGG"].contains(&name.as_str()) {
                    found = true;
                }
            }
        })
    };
    for (e, _) in &query.items {
        look(e);
    }
    if let Some(h) = &query.having {
        look(h);
    }
    found
}

fn item_signature(e: &E) -> String {
    let mut name = "key".to_string();
    e.visit(&mut |n| {
        if let E::Agg(a, d, _) = n {
            name = if *d { format!("{}-distinct", a.to_lowercase()) } else { a.to_lowercase() };
        }
    });
    if !matches!(e, E::Agg(_, _, _)) && name != "key" {
        name.push_str("+wrapper");
    }
    name
}

/// Compares the real aggregate output with the model table.
/// does the expression contain an aggregate and, outside the aggregate's arguments, a column reference?
pub fn wrapper_refers_to_column(e: &E) -> bool {
    fn has_agg(e: &E) -> bool {
        match e {
            E::Agg(_, _, _) => true,
            E::Neg(a) | E::Not(a) | E::Cast(a, _) | E::Extract(_, a) => has_agg(a),
            E::Bin(_, a, b) | E::Index(a, b) => has_agg(a) || has_agg(b),
            E::Is { l, r, .. } => has_agg(l) || has_agg(r),
            E::In { x, list, .. } => has_agg(x) || list.iter().any(has_agg),
            E::Call(_, args) | E::Array(args) => args.iter().any(has_agg),
            E::Case(arms, other) => arms.iter().any(|(c, v)| has_agg(c) || has_agg(v)) || has_agg(other),
            _ => false,
        }
    }
    fn has_col_outside(e: &E) -> bool {
        match e {
            E::Agg(_, _, _) => false,
            E::Col(_) => true,
            E::Neg(a) | E::Not(a) | E::Cast(a, _) | E::Extract(_, a) => has_col_outside(a),
            E::Bin(_, a, b) | E::Index(a, b) => has_col_outside(a) || has_col_outside(b),
            E::Is { l, r, .. } => has_col_outside(l) || has_col_outside(r),
            E::In { x, list, .. } => has_col_outside(x) || list.iter().any(has_col_outside),
            E::Call(_, args) | E::Array(args) => args.iter().any(has_col_outside),
            E::Case(arms, other) => arms.iter().any(|(c, v)| has_col_outside(c) || has_col_outside(v)) || has_col_outside(other),
            _ => false,
        }
    }
    has_agg(e) && has_col_outside(e)
}

pub fn compare_table(query: &Select, expected: &TableOutcome, real: &RunOut, context: &str) -> Result<u64, Failure> {
    let records = real.records();
    let having = if query.having.is_some() { "+having" } else { "" };
    match expected {
        TableOutcome::Unspec => Ok(1),
        TableOutcome::ZeroOrOne => {
            if real.result.is_ok() && records.len() <= 1 {
                Ok(0)
            } else if real.result.is_err() {
                // validation of the select list may or may not happen without rows
                Ok(1)
            } else {
                Err(Failure::new("row-count: empty-input", format!("{} records for an input without qualifying rows\n  {}", records.len(), context)))
            }
        }
        TableOutcome::Error(why) => {
            if real.result.is_err() {
                Ok(0)
            } else {
                Err(Failure::new(format!("missing-error{}", having), format!("an error must be reported ({}), got {:?}\n  {}", why, records, context)))
            }
        }
        TableOutcome::Rows(rows) => {
            if real.result.is_err() && query.items.iter().any(|(e, _)| wrapper_refers_to_column(e)) {
                // a wrapper that mixes the aggregate with a group key column: the right value or an error, never another value
                return Ok(1);
            }
            if let Err(e) = &real.result {
                return Err(Failure::new(format!("unexpected-error{}", having), format!("the query reported an error ({}) but every cell has a value\n  {}", e, context)));
            }
            let names: Vec<String> = crate::props::c03::output_names(&query.items, &[]);
            if records.len() != rows.len() {
                let sigs: Vec<String> = query.items.iter().map(|i| item_signature(&i.0)).collect();
                if records.len() < rows.len() && !creates_entry(query) {
                    return Err(Failure::new(
                        "group-dropped: no aggregate of the statement has a value in the group",
                        format!("{} groups expected, {} records printed: {:?}\n  {}", rows.len(), records.len(), records, context),
                    ));
                }
                return Err(Failure::new(
                    format!("row-count{}: {}", having, sigs.join(",")),
                    format!("{} groups expected, {} records printed: {:?}\n  {}", rows.len(), records.len(), records, context),
                ));
            }
            for (r, (cells, rec)) in rows.iter().zip(records.iter()).enumerate() {
                let parsed = match parse_json(rec) {
                    Ok(J::Obj(items)) => items,
                    other => return Err(Failure::new("undecodable-output", format!("record {:?}: {:?}", rec, other))),
                };
                let keys: Vec<&String> = parsed.iter().map(|(k, _)| k).collect();
                if keys != names.iter().collect::<Vec<_>>() {
                    return Err(Failure::new("column-names", format!("record {} has keys {:?}, expected {:?}\n  {}", rec, keys, names, context)));
                }
                for (c, ((_, got), want)) in parsed.iter().zip(cells.iter()).enumerate() {
                    if let Err(e) = cell_matches(want, got) {
                        return Err(Failure::new(
                            format!("cell-mismatch{}: {}", having, item_signature(&query.items[c].0)),
                            format!("row {} column {}: {}\n  all records: {:?}\n  {}", r, names[c], e, records, context),
                        ));
                    }
                }
            }
            Ok(0)
        }
    }
}

/// MIN / MAX over REAL groups that contain NaN (and infinities): whatever place the implementation's total order gives NaN
/// (the least or the greatest value, see C16), MIN and MAX are the two ends of the group's non-NULL values under that one order.
/// Observed through the text format (JSON prints NaN and the infinities as null).
fn check_nan_slice(rows: &[(u8, String)], ctx: &Ctx, obs: &mut Obs) -> Result<(), Failure> {
    obs.label("nan-slice");
    let defs = "CREATE TABLE n(line = '^g=([0-9]);r=([^;]*);', line[1] => g INT, line[2] => r REAL);";
    let tables = build_tables(defs).map_err(|e| Failure::new("definition-rejected", e))?;
    let query = "SELECT g, MIN(r) AS lo, MAX(r) AS hi, COUNT(r) AS n FROM n GROUP BY g";
    let statement = parse_statement(query).map_err(|e| Failure::new("query-rejected", e))?;
    let lines: Vec<String> = rows.iter().map(|(g, r)| format!("g={};r={};", g, r)).collect();
    let files = scratch_files(ctx, "c04n", &[lines_to_bytes(&lines)]);
    let options = RunOptions { format: sqlgrep::executor::OutputFormat::CSV(";".to_owned()), ..RunOptions::default() };
    let out = run_batch(&tables, &statement, &files, options).map_err(|p| Failure::new(format!("panic: {}", crate::run::panic_class(&p)), format!("panicked: {}\n  lines {:?}", p, lines)))?;
    let context = format!("query: {}\n  table: {}\n  lines: {:?}\n  output: {:?}", query, defs, lines, out.lines);
    if out.result.is_err() {
        return Err(Failure::new("nan-slice: error", format!("{:?}\n  {}", out.result, context)));
    }
    // expected per group
    let mut groups: std::collections::BTreeMap<u8, Vec<f64>> = std::collections::BTreeMap::new();
    for (g, r) in rows {
        let e = groups.entry(*g).or_default();
        if let Ok(v) = r.parse::<f64>() {
            if !r.is_empty() {
                e.push(v);
            }
        }
    }
    let printed: Vec<Vec<String>> = out.lines.iter().skip(1).filter(|l| !l.is_empty()).map(|l| l.split(';').map(|x| x.trim().to_string()).collect()).collect();
    let mut nontrivial = false;
    for (g, values) in &groups {
        let row = printed.iter().find(|r| r.first().map(|x| x == &g.to_string()).unwrap_or(false));
        let row = match row {
            Some(r) if r.len() == 4 => r,
            _ => {
                if values.is_empty() {
                    // known finding F09b: a group without any non-NULL aggregate input may be missing
                    continue;
                }
                return Err(Failure::new("nan-slice: group-missing", format!("group {} not printed\n  {}", g, context)));
            }
        };
        if values.is_empty() {
            continue;
        }
        let numbers: Vec<f64> = values.iter().cloned().filter(|v| !v.is_nan()).collect();
        let has_nan = numbers.len() != values.len();
        let parse = |s: &str| s.parse::<f64>().ok();
        let (lo, hi) = (parse(&row[1]), parse(&row[2]));
        let same = |a: Option<f64>, b: f64| a.map(|x| (x.is_nan() && b.is_nan()) || x == b).unwrap_or(false);
        let min_num = numbers.iter().cloned().fold(f64::INFINITY, f64::min);
        let max_num = numbers.iter().cloned().fold(f64::NEG_INFINITY, f64::max);
        let ok = if !has_nan {
            same(lo, min_num) && same(hi, max_num)
        } else if numbers.is_empty() {
            same(lo, f64::NAN) && same(hi, f64::NAN)
        } else {
            nontrivial = true;
            // NaN is the greatest or the least value, consistently
            (same(lo, min_num) && same(hi, f64::NAN)) || (same(lo, f64::NAN) && same(hi, max_num))
        };
        if !ok {
            return Err(Failure::new(
                format!("nan-slice: min-max{}", if has_nan { "+nan" } else { "" }),
                format!("group {} holds {:?}: MIN printed {:?}, MAX printed {:?}\n  {}", g, values, row[1], row[2], context),
            ));
        }
        if row[3] != values.len().to_string() {
            return Err(Failure::new("nan-slice: count", format!("group {} holds {} non-NULL values, COUNT(r) printed {}\n  {}", g, values.len(), row[3], context)));
        }
    }
    obs.nontrivial = nontrivial;
    Ok(())
}

/// VARIANCE / STDDEV / AVG / SUM over values that are not dyadic rationals or lie far from zero. INT: the cells must agree with
/// exact integer arithmetic within a tolerance that scales with the result (0 for a spread of 1 around 1e8 fails). REAL: a
/// non-negative number within a tolerance that scales with the sum of squares (NaN or a negative variance fails).
/// The rank slice: PERCENTILE(i, p) over the integers start .. start+n-1 (in a scrambled order) for fractions p with up to six decimals.
/// Oracle: the element of rank floor(p * n) (0-based, p * n computed exactly in integers; the rank the f64 product gives is accepted too).
fn check_rank_slice(spec: &(u32, i64, Vec<String>), ctx: &Ctx, obs: &mut Obs) -> Result<(), Failure> {
    obs.label("rank-slice");
    obs.nontrivial = true;
    let (n, start, fractions) = (spec.0 as i64, spec.1, &spec.2);
    let defs = "CREATE TABLE v(line = '^i=(-?[0-9]+);', line[1] => i INT);";
    let tables = build_tables(defs).map_err(|e| Failure::new("definition-rejected", e))?;
    let items: Vec<String> = fractions.iter().enumerate().map(|(k, p)| format!("PERCENTILE(i, {}) AS p{}", p, k)).collect();
    let query = format!("SELECT {}, COUNT(*) AS n FROM v", items.join(", "));
    let statement = parse_statement(&query).map_err(|e| Failure::new("query-rejected", e))?;
    // a fixed scramble of the values (multiplication by a unit modulo n)
    let step = (0..).map(|k| 7919 + 2 * k).find(|s| gcd(*s, n) == 1).unwrap_or(1);
    let lines: Vec<String> = (0..n).map(|k| format!("i={};", start + (k * step) % n)).collect();
    let files = scratch_files(ctx, "c04r", &[lines_to_bytes(&lines)]);
    let out = run_batch(&tables, &statement, &files, RunOptions::default()).map_err(|p| Failure::new(format!("panic: {}", crate::run::panic_class(&p)), format!("panicked: {}", p)))?;
    let context = format!("query: {}\n  table: {}\n  lines: the integers {} .. {} in a scrambled order\n  output: {:?} {:?}", query, defs, start, start + n - 1, out.lines, out.result);
    if out.result.is_err() || out.records().len() != 1 {
        return Err(Failure::new("rank-slice: no table", context));
    }
    let rec = parse_json(&out.records()[0]).map_err(|e| Failure::new("rank-slice: undecodable", format!("{}\n  {}", e, context)))?;
    for (k, p) in fractions.iter().enumerate() {
        let digits = p.split('.').nth(1).unwrap_or("");
        let scale = 10i128.pow(digits.len() as u32);
        let numerator: i128 = p.replace('.', "").parse().unwrap_or(0);
        let exact = ((numerator * n as i128) / scale).min(n as i128 - 1) as i64;
        let float = ((p.parse::<f64>().unwrap_or(0.0) * n as f64) as i64).min(n - 1);
        let got = match rec.get(&format!("p{}", k)) {
            Some(J::Num(text)) => text.parse::<i64>().ok(),
            _ => None,
        };
        if got != Some(start + exact) && got != Some(start + float) {
            return Err(Failure::new(
                "rank-slice: percentile",
                format!("PERCENTILE(i, {}) over {} distinct integers printed {:?}, the element of rank floor(p * n) = {} is {}\n  {}", p, n, got, exact, start + exact, context),
            ));
        }
    }
    Ok(())
}

fn gcd(a: i64, b: i64) -> i64 {
    if b == 0 { a.abs() } else { gcd(b, a % b) }
}

fn check_var_slice(rows: &[(u8, String, String)], ctx: &Ctx, obs: &mut Obs) -> Result<(), Failure> {
    obs.label("accuracy-slice");
    let defs = "CREATE TABLE v(line = '^g=([0-9]);r=([^;]*);i=([^;]*);', line[1] => g INT, line[2] => r REAL, line[3] => i INT);";
    let tables = build_tables(defs).map_err(|e| Failure::new("definition-rejected", e))?;
    let query = "SELECT g, VARIANCE(r) AS vr, STDDEV(r) AS sr, AVG(r) AS ar, SUM(r) AS tr, VARIANCE(i) AS vi, STDDEV(i) AS si, COUNT(*) AS n FROM v GROUP BY g";
    let statement = parse_statement(query).map_err(|e| Failure::new("query-rejected", e))?;
    let lines: Vec<String> = rows.iter().map(|(g, r, i)| format!("g={};r={};i={};", g, r, i)).collect();
    let files = scratch_files(ctx, "c04v", &[lines_to_bytes(&lines)]);
    let out = run_batch(&tables, &statement, &files, RunOptions::default()).map_err(|p| Failure::new(format!("panic: {}", crate::run::panic_class(&p)), format!("panicked: {}\n  lines {:?}", p, lines)))?;
    let context = format!("query: {}\n  table: {}\n  lines: {:?}\n  output: {:?}", query, defs, lines, out.lines);
    let mut groups: std::collections::BTreeMap<u8, (Vec<f64>, Vec<i64>)> = std::collections::BTreeMap::new();
    for (g, r, i) in rows {
        let e = groups.entry(*g).or_default();
        if let Ok(v) = r.parse::<f64>() {
            e.0.push(v);
        }
        if let Ok(v) = i.parse::<i64>() {
            e.1.push(v);
        }
    }
    if out.result.is_err() {
        // a sum of squares that leaves 64 bits may be reported as an overflow (the running sums are INTs)
        let squares_leave_i64 = groups.values().any(|(_, ints)| ints.iter().map(|x| (*x as i128) * (*x as i128)).sum::<i128>() > i64::MAX as i128);
        if squares_leave_i64 && format!("{:?}", out.result).contains("overflow") {
            obs.label("accuracy-slice-overflow-reported");
            return Ok(());
        }
        return Err(Failure::new("accuracy-slice: error", format!("{:?}\n  {}", out.result, context)));
    }
    let records: Vec<J> = out.records().iter().filter_map(|r| parse_json(r).ok()).collect();
    let num = |j: Option<&J>| -> Option<f64> {
        match j {
            Some(J::Num(n)) => n.parse::<f64>().ok(),
            _ => None,
        }
    };
    for (g, (reals, ints)) in &groups {
        let rec = match records.iter().find(|r| num(r.get("g")) == Some(*g as f64)) {
            Some(r) => r,
            None => return Err(Failure::new("accuracy-slice: group-missing", format!("group {} not printed\n  {}", g, context))),
        };
        let judge = |what: &str, got: Option<f64>, want: f64, tol: f64| -> Result<(), Failure> {
            match got {
                Some(x) if x.is_finite() && (x - want).abs() <= tol => Ok(()),
                other => Err(Failure::new(
                    format!("accuracy-slice: {}", what),
                    format!("group {}: {} printed {:?}, a two-pass computation gives {} (tolerance {:e}); values {:?} / {:?}\n  {}", g, what, other, want, tol, reals, ints, context),
                )),
            }
        };
        if !reals.is_empty() {
            obs.nontrivial = true;
            let n = reals.len() as f64;
            let mean = reals.iter().sum::<f64>() / n;
            let var = reals.iter().map(|x| (x - mean) * (x - mean)).sum::<f64>() / n;
            // REAL: how accurate a variance must be is not stated; the tolerance scales with the sum of squares (a one-pass
            // formula is accepted), but the result must be a number and not negative
            let scale = reals.iter().map(|x| x * x).sum::<f64>().max(1.0);
            let tol = 1e-9 * scale;
            for key in ["vr", "sr"] {
                match num(rec.get(key)) {
                    Some(x) if x.is_finite() && x >= 0.0 => {}
                    other => {
                        return Err(Failure::new(
                            "accuracy-slice: variance / stddev of REALs is not a non-negative number",
                            format!("group {}: {} printed {:?} for the values {:?}\n  {}", g, key, other.or(rec.get(key).map(|_| f64::NAN)), reals, context),
                        ))
                    }
                }
            }
            judge("variance(real)", num(rec.get("vr")), var, tol)?;
            judge("stddev(real)", num(rec.get("sr")), var.sqrt(), tol.sqrt().max(1e-9))?;
            judge("avg(real)", num(rec.get("ar")), mean, 1e-12 * (1.0 + mean.abs()))?;
            judge("sum(real)", num(rec.get("tr")), mean * n, 1e-12 * (1.0 + (mean * n).abs()))?;
        }
        if !ints.is_empty() {
            let n = ints.len() as i128;
            let s: i128 = ints.iter().map(|x| *x as i128).sum();
            let q: i128 = ints.iter().map(|x| (*x as i128) * (*x as i128)).sum();
            let var = (n * q - s * s) as f64 / (n * n) as f64;
            let tol = 1e-6 * var + 1e-9;
            judge("variance(int)", num(rec.get("vi")), var, tol)?;
            judge("stddev(int)", num(rec.get("si")), var.sqrt(), tol.sqrt())?;
        }
    }
    Ok(())
}

impl Property for C04 {
    type Case = Case;

    fn id(&self) -> &'static str {
        "C04"
    }

    fn rule(&self) -> String {
        "a typed table x up to 14 lines over small value domains (so that groups form; NULL with probability 1/4 per cell; non-admitted lines; one case in eight: up to 90 lines over a wide key domain, dozens of groups) x an aggregate statement: any mix and order of key \
         expressions and COUNT(*) / COUNT() / COUNT(c) / COUNT(DISTINCT c) / SUM / MIN / MAX / AVG / STDDEV / VARIANCE / PERCENTILE(p incl. 0.0 and 1.0) / BOOL_AND / BOOL_OR / STRING_AGG / ARRAY_AGG, \
         arithmetic or function wrappers (also ones whose result depends on the type of the aggregate's value: unary minus, + 1, ::TEXT), arguments and keys that are an INT on some rows and a REAL - possibly of the same value - on others, \
         BOOL_AND / BOOL_OR and WHERE over a regular expression that is itself a value of the row, STDDEV / VARIANCE over close INTs around 1.7e9 and 4e12, one table in six with a DEFAULT column, 0-2 GROUP BY elements (column or expression), optional WHERE, optional HAVING over aggregates (also ones absent from the select list) and keys. \
         Oracle: naive filter / bucket-by-equal-key / order / fold reference over the rows the real extract produced; table compared row by row and cell by cell (PERCENTILE by a validity predicate, \
         AVG(INT) truncated or real, STDDEV/VARIANCE population form with tolerance). Non-trivial: >= 2 groups, a group with >= 2 rows and an aggregate argument that is NULL on some row; distinct by case."
            .to_string()
    }

    fn assumptions(&self) -> Vec<String> {
        vec![
            "rows are what the real extract returns; expressions fully parenthesised".to_string(),
            "unspecified by the documents and not judged: ARRAY_AGG whose first value is NULL, AVG/SUM over mixed or non-numeric types, -0.0 and NaN keys (C16), no GROUP BY with zero qualifying rows (0 or 1 row)".to_string(),
        ]
    }

    fn cases(&self, tier: Tier) -> u64 {
        match tier {
            Tier::Quick => 450_000,
            Tier::Thorough => 2_000_000,
        }
    }

    fn tape_len(&self) -> usize {
        2400
    }

    fn label_floors(&self) -> Vec<(&'static str, f64)> {
        vec![("all-null-argument-group", 0.05), ("having", 0.1), ("several-groups", 0.2)]
    }

    fn generate(&self, t: &mut Tape, ctx: &Ctx) -> Case {
        let table = gen_table(t, "t", "c", false);
        let mut excluded = 0;
        let query = gen_aggregate_query(t, &table, ctx, true, &mut excluded);
        // one case in eight: dozens of groups (wide key domain, up to 90 lines)
        let lines = if t.chance(1, 8) { gen_wide_lines(t, &table, 90) } else { gen_group_lines(t, &table, 14) };
        let nan_rows = if t.chance(1, 15) {
            let n = 2 + t.draw(9);
            Some((0..n).map(|_| (t.draw(3) as u8, t.pick(&["NaN", "NaN", "1.5", "-2.0", "0.25", "7.0", "inf", "-inf", ""]).to_string())).collect())
        } else {
            None
        };
        let var_rows = if nan_rows.is_none() && t.chance(1, 15) {
            let n = 2 + t.draw(7);
            let family = t.draw(5);
            Some(
                (0..n)
                    .map(|_| {
                        let r = match family {
                            0 => *t.pick(&["0.1", "0.1", "0.2", "0.3", "0.7", "1.1", ""]),
                            1 => *t.pick(&["100000000.5", "100000001.5", "100000002.5", "100000000.5", ""]),
                            _ => *t.pick(&["0.1", "1e-7", "123456.789", "-0.3", "2.5", ""]),
                        };
                        let i = match family {
                            1 => *t.pick(&["100000000", "100000001", "100000002", "100000001", ""]),
                            // close together and so large that the square of their sum leaves 64 bits (Unix seconds, byte counters)
                            3 => *t.pick(&["1700000000", "1700000002", "1700000001", "1699999999", ""]),
                            4 => *t.pick(&["4000000000000", "4000000000001", "4000000000003", "3999999999999", "-4000000000000"]),
                            _ => *t.pick(&["3", "4", "1000000007", "-5", "0", ""]),
                        };
                        (t.draw(2) as u8, r.to_string(), i.to_string())
                    })
                    .collect(),
            )
        } else {
            None
        };
        // one case in 300: the rank slice (a thousand or more values in one group, fractions with five or six decimals)
        let rank = if t.chance(1, 300) {
            let n = *t.pick(&[1000u32, 2000, 3000, 10_000, 20_000]);
            let fractions: Vec<String> = (0..3).map(|_| match t.draw(4) { 0 => format!("0.{:05}", 1 + t.draw(99_998)), 1 => format!("0.{:06}", 1 + t.draw(999_998)), 2 => t.pick(&["0.5", "0.99995", "0.00005", "0.33333", "0.12345", "0.999999"]).to_string(), _ => format!("0.{:04}", 1 + t.draw(9_998)) }).collect();
            Some((n, t.range(-50, 50), fractions))
        } else {
            None
        };
        Case { table, lines, query, nan_rows, var_rows, rank }
    }

    fn check(&self, case: &Case, ctx: &Ctx, obs: &mut Obs) -> Result<(), Failure> {
        if let Some(rows) = &case.nan_rows {
            return check_nan_slice(rows, ctx, obs);
        }
        if let Some(spec) = &case.rank {
            return check_rank_slice(spec, ctx, obs);
        }
        if let Some(rows) = &case.var_rows {
            return check_var_slice(rows, ctx, obs);
        }
        let defs = case.table.definition();
        let tables = build_tables(&defs).map_err(|e| Failure::new("definition-rejected", format!("{}: {}", defs, e)))?;
        let text = case.query.text();
        let statement = parse_statement(&text).map_err(|e| Failure::new("query-rejected", format!("`{}`: {}", text, e)))?;
        let rows = admitted_rows(&tables, "t", &case.lines).map_err(|e| Failure::new("panic: extract", e))?;
        let ctxs: Vec<RowCtx> = rows.iter().map(|(i, values)| RowCtx { env: row_env(&case.table, values, &case.lines[*i]) }).collect();
        let expected = aggregate_table(&case.query, &ctxs);

        let context = format!("query: {}\n  table: {}\n  lines: {:?}", text, defs, case.lines);
        let files = scratch_files(ctx, "c04", &[lines_to_bytes(&case.lines)]);
        let real = run_batch(&tables, &statement, &files, RunOptions::default()).map_err(|p| {
            let sigs: Vec<String> = case.query.items.iter().map(|i| item_signature(&i.0)).collect();
            Failure::new(format!("panic: {}{}", crate::run::panic_class(&p), if case.query.having.is_some() { " +having" } else { "" }), format!("panicked: {} (items {})\n  {}", p, sigs.join(","), context))
        })?;

        // labels
        if case.query.items.iter().any(|(_, a)| a.as_deref() == Some("an")) {
            obs.excluded += 1;
        }
        if case.query.having.is_some() {
            obs.label("having");
        }
        if case.query.group_by.is_empty() {
            obs.label("no-group-by");
        }
        if let TableOutcome::Rows(r) = &expected {
            if r.len() >= 2 {
                obs.label("several-groups");
            }
            if r.len() >= 17 {
                obs.label("17+ groups");
            }
            if r.iter().any(|cells| cells.iter().any(|c| matches!(c, Cell::Exact(ev) if ev.k == crate::eval::K::Val(V::Null)))) {
                obs.label("all-null-argument-group");
            }
            let null_args = rows.iter().any(|(_, v)| v.iter().any(|x| x.is_null()));
            obs.nontrivial = r.len() >= 2 && rows.len() > r.len() && null_args;
        }
        match compare_table(&case.query, &expected, &real, &context) {
            Ok(u) => {
                obs.unspecified += u;
                if u > 0 {
                    obs.label("unspecified");
                }
                Ok(())
            }
            Err(f) => Err(f),
        }
    }
}
