//! C02 — JSON-path extraction yields exactly the addressed JSON value, typed (reference path walk + typing).

use serde::{Deserialize, Serialize};

use crate::exec::*;
use crate::extract_model::*;
use crate::run::{catch, Ctx, Failure, Obs, Property, Tier};
use crate::sql::E;
use crate::stmt::*;
use crate::tape::Tape;
use crate::value::*;

#[derive(Clone, Debug, Serialize, Deserialize)]
pub struct Case {
    pub def: TableDef,
    pub lines: Vec<String>,
    /// further modifiers set through the public ColumnOptions fields (column index, modifier): the combinations the grammar cannot write
    #[serde(default)]
    pub extras: Vec<(usize, Modifier)>,
    /// lines that are not JSON presented to the same definition before the lines of the case (extraction has no memory)
    #[serde(default)]
    pub preamble: Vec<(String, u32)>,
}

pub struct C02;

const KEYS: [&str; 5] = ["a", "b", "c", "msg", "ts_1"];
/// keys that look like array indexes: `[0]` applied to an object must not find them
const DIGIT_KEYS: [&str; 3] = ["0", "1", "2"];
const NUM_LEAVES: [&str; 23] = [
    "0", "1", "-7", "42", "9223372036854775807", "-9223372036854775808", "9223372036854775808", "18446744073709551615", "123456789012345678901234567890", "1.5", "-0.25", "1e2", "5.0", "1E-3",
    "0.1", "1e400", "-0", "12345678.12345678", "1e19", "-1e19", "9223372036854775808.0", "2e3", "1.0",
];
const STR_LEAVES: [&str; 35] = ["000000000000000000000042", "-00000000000000000000007", "0000000000000000000000.5", "", "abc", "12", "-3", "1.5", "true", "2021-03-04 05:06:07", "2021-13-04 05:06:07", "1:02:03", "x:y", "é😀", "q\"uote", "back\\slash", "line\nbreak", "+42", "007", "-0", ".5", "5.", " 42", "42 ", "2.5\n", " true", "TRUE", "false", "1e3", "0x10", "1_000", "٤٢", "-.5e1", "+1.5", "00:00:01"];

fn gen_leaf(t: &mut Tape) -> J {
    match t.weighted(&[5, 5, 2, 1]) {
        0 => J::Num(t.pick(&NUM_LEAVES).to_string()),
        1 => J::Str(t.pick(&STR_LEAVES).to_string()),
        2 => J::Bool(t.chance(1, 2)),
        _ => J::Null,
    }
}

fn gen_doc(t: &mut Tape, depth: usize) -> J {
    if depth == 0 || t.chance(1, 3) {
        return gen_leaf(t);
    }
    if t.chance(1, 12) {
        // an array of arrays (a two-dimensional column)
        let texts = t.chance(1, 3);
        let rows = 1 + t.draw(3);
        return J::Arr((0..rows).map(|_| J::Arr((0..t.draw(4)).map(|_| if texts { J::Str(t.pick(&["a", "b", ""]).to_string()) } else { J::Num(t.pick(&["1", "2", "-3", "1.5", "9223372036854775808"]).to_string()) }).collect())).collect());
    }
    if t.chance(1, 3) {
        let n = t.draw(4);
        // arrays: homogeneous or mixed
        let homogeneous = t.chance(1, 2);
        let first = gen_leaf(t);
        let mut items = Vec::new();
        for i in 0..n {
            if homogeneous && i > 0 {
                items.push(match &first {
                    J::Num(_) => J::Num(t.pick(&NUM_LEAVES).to_string()),
                    J::Str(_) => J::Str(t.pick(&STR_LEAVES).to_string()),
                    other => other.clone(),
                });
            } else if i == 0 {
                items.push(first.clone());
            } else {
                items.push(gen_doc(t, depth - 1));
            }
        }
        return J::Arr(items);
    }
    let n = 1 + t.draw(4);
    let mut items: Vec<(String, J)> = Vec::new();
    let digit_keys = t.chance(1, 6);
    for _ in 0..n {
        let k = if digit_keys { t.pick(&DIGIT_KEYS).to_string() } else { t.pick(&KEYS).to_string() };
        if items.iter().any(|(x, _)| x == &k) {
            continue;
        }
        items.push((k, gen_doc(t, depth - 1)));
    }
    J::Obj(items)
}

fn render(j: &J, spaced: bool, out: &mut String) {
    let sp = if spaced { " " } else { "" };
    match j {
        J::Null => out.push_str("null"),
        J::Bool(b) => out.push_str(if *b { "true" } else { "false" }),
        J::Num(n) => out.push_str(n),
        J::Str(s) => out.push_str(&crate::data::json_string(s)),
        J::Arr(items) => {
            out.push('[');
            for (i, it) in items.iter().enumerate() {
                if i > 0 {
                    out.push(',');
                    out.push_str(sp);
                }
                render(it, spaced, out);
            }
            out.push(']');
        }
        J::Obj(items) => {
            out.push('{');
            out.push_str(sp);
            for (i, (k, v)) in items.iter().enumerate() {
                if i > 0 {
                    out.push(',');
                    out.push_str(sp);
                }
                if spaced && k.chars().count() == 1 && k.is_ascii() {
                    // the same key written with a \\u escape (any character of a JSON string may be)
                    out.push_str(&format!("\"\\u{:04x}\"", k.chars().next().unwrap() as u32));
                } else {
                    out.push_str(&crate::data::json_string(k));
                }
                out.push(':');
                out.push_str(sp);
                render(v, spaced, out);
            }
            out.push_str(sp);
            out.push('}');
        }
    }
}

fn paths(j: &J, prefix: &mut Vec<JsonPart>, out: &mut Vec<(Vec<JsonPart>, J)>) {
    match j {
        J::Obj(items) => {
            for (k, v) in items {
                prefix.push(JsonPart::Field(k.clone()));
                out.push((prefix.clone(), v.clone()));
                paths(v, prefix, out);
                prefix.pop();
            }
        }
        J::Arr(items) => {
            for (i, v) in items.iter().enumerate() {
                prefix.push(JsonPart::Index(i as u64));
                out.push((prefix.clone(), v.clone()));
                paths(v, prefix, out);
                prefix.pop();
            }
        }
        _ => {}
    }
}

/// a new document of the same shape with fresh leaves (sometimes of another kind), keys sometimes dropped / duplicated
fn vary(t: &mut Tape, j: &J) -> J {
    match j {
        J::Obj(items) => {
            let mut out = Vec::new();
            for (k, v) in items {
                match t.draw(12) {
                    0 => {} // key dropped
                    1 => {
                        // duplicated key with another value
                        out.push((k.clone(), vary(t, v)));
                        out.push((k.clone(), gen_leaf(t)));
                    }
                    2 => out.push((k.clone(), gen_leaf(t))), // subtree replaced by a scalar
                    _ => out.push((k.clone(), vary(t, v))),
                }
            }
            J::Obj(out)
        }
        J::Arr(items) => {
            let mut out: Vec<J> = items.iter().map(|v| vary(t, v)).collect();
            match t.draw(8) {
                0 => {
                    out.pop();
                }
                1 => out.push(gen_leaf(t)),
                _ => {}
            }
            J::Arr(out)
        }
        J::Num(_) | J::Str(_) | J::Bool(_) | J::Null => {
            if t.chance(1, 5) {
                gen_leaf(t)
            } else {
                match j {
                    J::Num(_) => J::Num(t.pick(&NUM_LEAVES).to_string()),
                    J::Str(_) => J::Str(t.pick(&STR_LEAVES).to_string()),
                    J::Bool(_) => J::Bool(t.chance(1, 2)),
                    _ => J::Null,
                }
            }
        }
    }
}

fn type_for(t: &mut Tape, leaf: &J) -> (String, Option<Modifier>) {
    let natural = match leaf {
        J::Num(n) => {
            if J::is_integer_literal(n) {
                *t.pick(&["INT", "REAL", "INT"])
            } else {
                "REAL"
            }
        }
        J::Str(s) => {
            if s.contains(' ') && s.contains(':') {
                "TIMESTAMP"
            } else if s.matches(':').count() == 2 {
                "INTERVAL"
            } else {
                "TEXT"
            }
        }
        J::Bool(_) => "BOOLEAN",
        J::Arr(items) => match items.first() {
            // an array of arrays: a two-dimensional column type
            Some(J::Arr(inner)) => match inner.first() {
                Some(J::Str(_)) => "TEXT[][]",
                Some(J::Num(n)) if !J::is_integer_literal(n) => "REAL[][]",
                _ => "INT[][]",
            },
            Some(J::Num(n)) if J::is_integer_literal(n) => "INT[]",
            Some(J::Num(_)) => "REAL[]",
            Some(J::Str(_)) => "TEXT[]",
            Some(J::Bool(_)) => "BOOLEAN[]",
            _ => "INT[]",
        },
        _ => "TEXT",
    };
    let ty = if t.chance(1, 5) { *t.pick(&["INT", "REAL", "TEXT", "BOOLEAN", "TIMESTAMP", "INTERVAL", "INT[]", "TEXT[]", "REAL[]"]) } else { natural };
    let modifier = match t.draw(10) {
        0 | 1 if matches!(leaf, J::Str(_)) || matches!(ty, "TIMESTAMP" | "INTERVAL") => Some(Modifier::Convert),
        2 => Some(Modifier::NotNull),
        3 | 4 => match ty {
            "INT" => Some(Modifier::Default(E::Int(77))),
            "REAL" => Some(Modifier::Default(E::Real("7.5".into()))),
            "TEXT" => Some(Modifier::Default(E::Str("dflt".into()))),
            "BOOLEAN" => Some(Modifier::Default(E::True)),
            _ => None,
        },
        5 if matches!(leaf, J::Str(_)) && !ty.ends_with("[]") => Some(Modifier::Convert),
        _ => None,
    };
    (ty.to_string(), modifier)
}

/// signature of the open known finding F39 (kept exact: any other failure on a deep document is still a violation)
const MARKER_KEY: &str = "$serde_json::private::Number";
/// signature of the open known finding F63
const MARKER_SIGNATURE: &str = "serde-number-marker: an object with the key $serde_json::private::Number is not read as an object";

const DEEP_SIGNATURE: &str = "deep-json: a valid document nested 128 or more levels deep is read as not-JSON";

/// maximal bracket nesting of the text outside string literals
fn nesting_depth(text: &str) -> usize {
    let (mut depth, mut max, mut in_str, mut escaped) = (0usize, 0usize, false, false);
    for b in text.bytes() {
        if in_str {
            if escaped {
                escaped = false;
            } else if b == b'\\' {
                escaped = true;
            } else if b == b'"' {
                in_str = false;
            }
            continue;
        }
        match b {
            b'"' => in_str = true,
            b'[' | b'{' => {
                depth += 1;
                max = max.max(depth);
            }
            b']' | b'}' => depth = depth.saturating_sub(1),
            _ => {}
        }
    }
    max
}

impl Property for C02 {
    type Case = Case;

    fn id(&self) -> &'static str {
        "C02"
    }

    fn rule(&self) -> String {
        "a table with 1-6 JSON-path columns `{ .a.b[0] } => name TYPE [CONVERT | DEFAULT v | NOT NULL]` (paths drawn from a generated document's own path set, then mutated: wrong key, index out of range, \
         field-on-array, index-on-object, through a scalar; natural or deliberately wrong types) mixed with regex columns over the raw line, x lines that vary the document: fresh leaves (small ints, i64 extremes, \
         u64 above i64::MAX, 30-digit integers, floats, 1e400, strings that look like numbers / timestamps / contain escapes and non-ASCII, booleans, null), dropped keys, duplicated keys, subtrees replaced by scalars, \
         an unrelated field nested 30-600 levels deep (one case in twelve), compact or spaced rendering, truncated / trailing-comma / trailing-junk documents, non-JSON lines, top-level arrays and scalars. Oracle: path walk on the harness's own JSON tree and typing without coercion \
         (INT only from integer literals within i64, REAL from any number within 2 ULP, TEXT only from strings, BOOLEAN only from booleans, arrays element-wise, CONVERT parses strings, wrong type -> NULL, absent / invalid -> DEFAULT or NULL), \
         compared with TableDefinition::extract; one case in five sets further modifiers through the public ColumnOptions fields (CONVERT + DEFAULT, DEFAULT + NOT NULL, TRIM + ...: the combinations the one-modifier grammar cannot write), one case in thirty presents 40 - 1100 lines that are not JSON to the same definition first (extraction has no memory); plus column independence (removing the other columns does not change a column's value). Non-trivial: a valid-JSON line and a JSON column whose path resolves to a present leaf; distinct by (definition, line)."
            .to_string()
    }

    fn assumptions(&self) -> Vec<String> {
        vec![
            "JSON validity is judged by the harness's own RFC 8259 reader".to_string(),
            "not judged: integral values written as reals for INT (5.0, 1e2, -0), documents containing numbers beyond f64 (1e400), REAL beyond 2 ULP of the correctly rounded value".to_string(),
        ]
    }

    fn cases(&self, tier: Tier) -> u64 {
        match tier {
            Tier::Quick => 120_000,
            Tier::Thorough => 1_500_000,
        }
    }

    fn tape_len(&self) -> usize {
        900
    }

    fn label_floors(&self) -> Vec<(&'static str, f64)> {
        vec![("valid-json-line", 0.5), ("invalid-json-line", 0.1), ("present-leaf", 0.3), ("duplicate-key", 0.03)]
    }

    fn generate(&self, t: &mut Tape, _ctx: &Ctx) -> Case {
        let mut doc = gen_doc(t, 3);
        if !matches!(doc, J::Obj(_)) || t.chance(1, 10) {
            // mostly an object at the top
            if !t.chance(1, 6) {
                doc = J::Obj(vec![("a".into(), doc), ("b".into(), gen_doc(t, 2))]);
            }
        }
        let mut all = Vec::new();
        paths(&doc, &mut Vec::new(), &mut all);
        // one case in twelve: an unrelated field nested far deeper than anything else ("valid JSON of any shape and nesting")
        if t.chance(1, 12) {
            if let J::Obj(items) = &mut doc {
                let mut depth = *t.pick(&[30usize, 100, 125, 126, 127, 128, 129, 200, 600]);
                if _ctx.excluded("c02_deep_json") {
                    // open known finding: documents nested deeper than 127 levels are read as not-JSON
                    depth = depth.min(125);
                }
                let mut deep = if t.chance(1, 2) { J::Num("7".into()) } else { J::Arr(Vec::new()) };
                for i in 0..depth {
                    deep = if i % 5 == 4 && t.chance(1, 2) { J::Obj(vec![("n".into(), deep)]) } else { J::Arr(vec![deep]) };
                }
                let at = t.draw(items.len() + 1);
                items.insert(at, ("deep".into(), deep));
            }
        }
        // one case in forty: an object whose only key is the private marker serde_json's arbitrary_precision mode uses for numbers
        if !_ctx.excluded("c02_serde_number_marker") && t.chance(1, 40) {
            if let J::Obj(items) = &mut doc {
                let inner = J::Obj(vec![(MARKER_KEY.to_string(), J::Str(t.pick(&["x", "12", "1.5"]).to_string()))]);
                let at = t.draw(items.len() + 1);
                items.insert(at, ("marker".into(), inner));
            }
        }
        let mut entries = Vec::new();
        let ncols = 1 + t.draw(6);
        for c in 0..ncols {
            let (mut path, leaf) = if all.is_empty() { (vec![JsonPart::Field("a".into())], J::Null) } else { t.pick(&all).clone() };
            // a field that is a digit string cannot be written as `.0`: write it as `[0]` (which must then be absent)
            for part in path.iter_mut() {
                if let JsonPart::Field(name) = part {
                    if let Ok(i) = name.parse::<u64>() {
                        *part = JsonPart::Index(i);
                    }
                }
            }
            match t.draw(10) {
                0 => {
                    // wrong key / index at the end
                    let last = path.len() - 1;
                    path[last] = match &path[last] {
                        JsonPart::Field(_) => JsonPart::Field("zz".into()),
                        JsonPart::Index(i) => JsonPart::Index(i + 5),
                    };
                }
                1 => path.push(JsonPart::Field(t.pick(&KEYS).to_string())), // through a leaf / deeper
                2 => path.push(JsonPart::Index(t.range(0, 2) as u64)),
                3 => {
                    // field <-> index swapped
                    let last = path.len() - 1;
                    path[last] = match &path[last] {
                        JsonPart::Field(_) => JsonPart::Index(0),
                        JsonPart::Index(_) => JsonPart::Field("a".into()),
                    };
                }
                _ => {}
            }
            let (ty, modifier) = type_for(t, &leaf);
            entries.push(Entry::Column { source: Source::Json(path), name: format!("j{}", c), ty, modifier });
        }
        // regex columns over the raw line
        if t.chance(1, 3) {
            entries.push(Entry::Column { source: Source::Inline("\"a\": ?\"?([0-9a-z]+)".into()), name: "ra".into(), ty: if t.chance(1, 2) { "INT".into() } else { "TEXT".into() }, modifier: None });
        }
        if t.chance(1, 5) {
            entries.insert(0, Entry::Pattern { name: "line".into(), mode: None, regex: "^(.)(.*)$".into() });
            entries.push(Entry::Column { source: Source::Groups(vec![("line".into(), 1)]), name: "first".into(), ty: "TEXT".into(), modifier: None });
        }
        let def = TableDef { name: "t".into(), entries };

        let nlines = 1 + t.draw(6);
        let mut lines = Vec::new();
        for _ in 0..nlines {
            let d = if t.chance(1, 6) { doc.clone() } else { vary(t, &doc) };
            let mut text = String::new();
            render(&d, t.chance(1, 2), &mut text);
            match t.draw(14) {
                0 => {
                    let cut = t.draw(text.len().max(1));
                    if text.is_char_boundary(cut) {
                        text.truncate(cut);
                    }
                }
                1 => text = text.replacen('}', ",}", 1),
                2 => text.push_str(*t.pick(&[" x", ",", "}", "{}", " 1"])),
                3 => text = t.pick(&["", "not json", "[1, 2]", "42", "\"str\"", "null", "{'a': 1}"]).to_string(),
                4 => text = format!(" \t{} ", text),
                _ => {}
            }
            lines.push(text);
        }
        // one case in five: modifier combinations (CONVERT + DEFAULT, DEFAULT + NOT NULL, TRIM + ...) set through the public options
        let mut extras = Vec::new();
        if t.chance(1, 5) {
            let ncolumns = def.entries.iter().filter(|e| matches!(e, Entry::Column { .. })).count();
            for _ in 0..1 + t.draw(3) {
                let ci = t.draw(ncolumns);
                let ty = def.entries.iter().filter_map(|e| if let Entry::Column { ty, .. } = e { Some(ty.to_ascii_lowercase()) } else { None }).nth(ci).unwrap_or_default();
                let m = match t.draw(5) {
                    0 => Modifier::NotNull,
                    1 => Modifier::Trim,
                    2 => Modifier::Convert,
                    _ => match ty.as_str() {
                        "int" => Modifier::Default(E::Int(-1)),
                        "real" => Modifier::Default(E::Real("2.5".into())),
                        "text" => Modifier::Default(E::Str("dflt".into())),
                        "boolean" => Modifier::Default(E::False),
                        _ => Modifier::Convert,
                    },
                };
                extras.push((ci, m));
            }
        }
        // one case in thirty: a long run of lines that are not JSON comes first
        let mut preamble = Vec::new();
        if t.chance(1, 30) {
            for _ in 0..1 + t.draw(2) {
                let filler = *t.pick(&["plain text line", "", "{\"a\": ", "GET /index.html 200", "[1, 2", "   "]);
                preamble.push((filler.to_string(), *t.pick(&[40u32, 255, 256, 257, 300, 700, 1100])));
            }
        }
        Case { def, lines, extras, preamble }
    }

    fn check(&self, case: &Case, _ctx: &Ctx, obs: &mut Obs) -> Result<(), Failure> {
        let text = case.def.text();
        let mut compiled = match compile(&case.def) {
            Some(c) => c,
            None => {
                obs.unspecified += 1;
                return Ok(());
            }
        };
        let tables = match build_tables(&text) {
            Ok(t) => t,
            Err(e) => return Err(Failure::new(if e.starts_with("panic") { "definition-panic" } else { "definition-rejected" }, format!("`{}`: {}", text, e))),
        };
        let mut def = tables.get("t").ok_or_else(|| Failure::new("definition-lost", text.clone()))?.clone();
        apply_extra(&mut def, &mut compiled, &case.extras);
        let def = &def;
        let colnames = case.def.column_names();
        let text = if compiled.extra.iter().all(|x| x.is_empty()) { text } else { format!("{}  -- with further options set on the columns: {:?}", text, compiled.extra) };
        if compiled.extra.iter().any(|x| !x.is_empty()) {
            obs.label("modifier-combination");
        }

        // extraction has no memory: whatever came before, a line gives the row it gives on its own
        for (filler, times) in &case.preamble {
            obs.label("long-preamble");
            let expected = model_extract(&compiled, filler);
            for k in 0..*times {
                let real = catch(|| def.extract(filler)).map_err(|p| Failure::new(format!("panic: {}", crate::run::panic_class(&p)), format!("extract panicked on {:?} with `{}`: {}", filler, text, p)))?;
                if let ModelRow::Row(cells) = &expected {
                    let ok = real.columns.len() == cells.len() && cells.iter().zip(real.columns.iter()).all(|(c, g)| cell_accepts(c, &V::from_real(g)));
                    if !ok {
                        return Err(Failure::new("preamble-line", format!("repetition {} of the line {:?} gives {:?}, expected {:?}\n  definition: {}", k + 1, filler, real.columns, cells, text)));
                    }
                }
            }
        }

        // single-column definitions for the independence check (columns without NOT NULL)
        let mut singles: Vec<(usize, sqlgrep::data_model::TableDefinition)> = Vec::new();
        for (ci, e) in case.def.entries.iter().filter(|e| matches!(e, Entry::Column { .. })).enumerate() {
            if let Entry::Column { modifier, .. } = e {
                if matches!(modifier, Some(Modifier::NotNull)) {
                    continue;
                }
            }
            let mut entries: Vec<Entry> = case.def.entries.iter().filter(|x| matches!(x, Entry::Pattern { .. })).cloned().collect();
            // keep inline-pattern numbering stable: inline columns before this one still define their patterns
            let mut k = 0;
            for x in &case.def.entries {
                if let Entry::Column { source, .. } = x {
                    if k == ci {
                        entries.push(x.clone());
                    } else if matches!(source, Source::Inline(_)) && k < ci {
                        entries.push(x.clone());
                    }
                    k += 1;
                }
            }
            let d = TableDef { name: "t".into(), entries };
            if compiled.extra[ci].iter().any(|m| matches!(m, Modifier::NotNull)) {
                continue;
            }
            if let Ok(tb) = build_tables(&d.text()) {
                if let Some(mut d1) = tb.get("t").cloned() {
                    if let Some(last) = d1.columns.last_mut() {
                        for m in &compiled.extra[ci] {
                            set_option(last, m);
                        }
                    }
                    singles.push((ci, d1));
                }
            }
        }

        for line in &case.lines {
            obs.inner += 1;
            let valid = parse_json(line).is_ok();
            obs.label(if valid { "valid-json-line" } else { "invalid-json-line" });
            let depth = nesting_depth(line);
            if depth > 64 {
                obs.label("deeply-nested-line");
            }
            // (serde_json stops at 128 levels: see the known finding)
            let deep_tag = valid && depth >= 128;
            if valid && line.matches("\"a\"").count() >= 2 || line.matches("\"b\"").count() >= 2 {
                obs.label("duplicate-key");
            }
            let model = model_extract(&compiled, line);
            let real = catch(|| def.extract(line)).map_err(|p| Failure::new(format!("panic: {}", crate::run::panic_class(&p)), format!("extract panicked on {:?} with `{}`: {}", line, text, p)))?;
            let context = format!("line {:?}\n  definition: {}", line, text);
            match &model {
                ModelRow::Unspec => obs.unspecified += 1,
                ModelRow::Dropped => {
                    if !real.columns.is_empty() && real.any_result() {
                        return Err(Failure::new("not-null-violated", format!("a NOT NULL column is NULL, yet the line yields the row {:?}\n  {}", real.columns, context)));
                    }
                }
                ModelRow::Row(cells) => {
                    if real.columns.is_empty() {
                        if valid && line.contains(MARKER_KEY) {
                            return Err(Failure::new(MARKER_SIGNATURE, format!("the line yields no row; expected {:?}\n  {}", cells, context)));
                        }
                        if deep_tag {
                            return Err(Failure::new(DEEP_SIGNATURE, format!("nesting depth {}: the line yields no row; expected {:?}\n  {}", depth, cells, context)));
                        }
                        return Err(Failure::new("row-dropped", format!("the line yields no row although every NOT NULL column has a value; expected {:?}\n  {}", cells, context)));
                    }
                    for (ci, (cell, got)) in cells.iter().zip(real.columns.iter()).enumerate() {
                        let got_v = V::from_real(got);
                        if matches!(cell, Cell::Any) {
                            obs.unspecified += 1;
                        }
                        if valid && !got_v.is_null() && matches!(compiled.columns[ci].0, Source::Json(_)) {
                            obs.label("present-leaf");
                            obs.nontrivial = true;
                        }
                        if !cell_accepts(cell, &got_v) {
                            let (kind, ty, m) = match &compiled.columns[ci] {
                                (Source::Json(_), _, ty, m) => ("json", ty.clone(), m.clone()),
                                (_, _, ty, m) => ("regex", ty.clone(), m.clone()),
                            };
                            let mtag = match m {
                                Some(Modifier::Convert) => "+convert",
                                Some(Modifier::Default(_)) => "+default",
                                Some(Modifier::NotNull) => "+notnull",
                                _ => "",
                            };
                            if valid && line.contains(MARKER_KEY) && kind == "json" {
                                return Err(Failure::new(MARKER_SIGNATURE, format!("column {} ({}) extracted {:?}, expected {:?}\n  {}", colnames[ci], ty, got_v, cell, context)));
                            }
                            if deep_tag && kind == "json" && (got_v.is_null() || matches!(m, Some(Modifier::Default(_)))) {
                                return Err(Failure::new(DEEP_SIGNATURE, format!("nesting depth {}: column {} ({}) extracted {:?}, expected {:?}\n  {}", depth, colnames[ci], ty, got_v, cell, context)));
                            }
                            return Err(Failure::new(
                                format!("value: {} {}{}{}", kind, ty, mtag, if valid { "" } else { " (invalid json)" }),
                                format!("column {} ({}): extracted {:?}, expected {:?}\n  {}", colnames[ci], ty, got_v, cell, context),
                            ));
                        }
                    }
                    // column independence
                    for (ci, d1) in &singles {
                        let r1 = catch(|| d1.extract(line)).map_err(|p| Failure::new(format!("panic: {}", crate::run::panic_class(&p)), format!("extract panicked: {}\n  {}", p, context)))?;
                        // the single-column row: inline columns kept before it come first; the column itself is last
                        if let (Some(alone), Some(full)) = (r1.columns.last(), real.columns.get(*ci)) {
                            let (a, b) = (V::from_real(alone), V::from_real(full));
                            let same = match (&a, &b) {
                                (V::Real(x), V::Real(y)) => x.to_bits() == y.to_bits() || (x.is_nan() && y.is_nan()),
                                _ => a == b,
                            };
                            if !same {
                                return Err(Failure::new(
                                    "columns-influence-each-other",
                                    format!("column {} is {:?} in the full table but {:?} when it is the only column\n  {}", colnames[*ci], b, a, context),
                                ));
                            }
                        }
                    }
                }
            }
        }
        Ok(())
    }
}
