//! C09 — execution is total: any data gives results or an error message, never a crash.
//!
//! The search runs once per time zone, each in its own supervised child process (chrono reads TZ once).

use serde::{Deserialize, Serialize};

use sqlgrep::execution::execution_engine::{ExecutionConfig, ExecutionEngine};
use sqlgrep::executor::OutputFormat;

use crate::data::*;
use crate::exec::*;
use crate::gen_typed::*;
use crate::run::{Ctx, Failure, Obs, Property, Tier};
use crate::sql::*;
use crate::stmt::*;
use crate::tape::Tape;

#[derive(Clone, Debug, Serialize, Deserialize)]
pub struct Case {
    pub defs: String,
    /// the join's file name placeholder `JOINED` is replaced by a scratch path
    pub query: String,
    /// raw input bytes
    pub input: Vec<u8>,
    pub joined_input: Vec<u8>,
    /// "json" | "text" | "csv"
    pub format: String,
    pub kind: String,
    /// select-hazard cases keep their structured form: under TZ=UTC the exact-or-error oracle of C03 judges silent wraps
    #[serde(default)]
    pub structured: Option<crate::props::c03::Case>,
    /// json-table cases keep their structured form as well: an INT that comes out as a 64-bit limit where the reference extraction
    /// has NULL is a silently saturated number
    #[serde(default)]
    pub json_case: Option<crate::props::c02::Case>,
}

pub struct C09;

/// tape words from fuzzer bytes (little endian, 4 bytes per word)
pub use crate::run::words_from_bytes;

pub const TIME_ZONES: [&str; 6] = ["UTC", "Europe/Stockholm", "America/Sao_Paulo", "Pacific/Apia", "Australia/Lord_Howe", "America/Havana"];

/// local times that do not exist or are ambiguous in one of the zones above
const DST_TIMES: [&str; 15] = [
    "2021-03-14 00:30:00", // Havana: the transition is at local midnight
    "2021-03-14 12:00:00",
    "2021-11-07 00:30:00", // Havana overlap

    "2021-03-28 02:30:00", // Stockholm gap
    "2021-10-31 02:30:00", // Stockholm overlap
    "2018-11-04 00:30:00", // Sao Paulo gap at midnight
    "2018-11-04 12:00:00", // same day (date_trunc to a midnight that does not exist)
    "2019-02-16 23:30:00", // Sao Paulo overlap
    "2011-12-30 12:00:00", // Apia: the skipped day
    "2011-12-31 00:30:00",
    "2021-09-26 03:30:00", // Apia gap
    "2021-10-03 02:15:00", // Lord Howe 30-minute gap
    "2021-04-04 01:45:00", // Lord Howe overlap
    "2021-06-15 12:00:00",
    "1970-01-01 00:00:00",
];

fn mutate_bytes(t: &mut Tape, input: &mut Vec<u8>) {
    match t.draw(8) {
        0 => {
            let pos = t.draw(input.len() + 1);
            let junk: &[u8] = *t.pick(&[&[0xff, 0xfe][..], &[0u8][..], &[0xc3][..], &[0xe2, 0x82][..], &[0xf0, 0x9f][..], &[b'\r'][..]]);
            for (i, b) in junk.iter().enumerate() {
                input.insert(pos + i, *b);
            }
        }
        1 => {
            // a very long line
            let mut line = vec![b'x'; 20_000];
            line.push(b'\n');
            let pos = t.draw(input.len() + 1);
            // insert at a line boundary if possible
            let at = input[..pos].iter().rposition(|b| *b == b'\n').map(|p| p + 1).unwrap_or(0);
            input.splice(at..at, line);
        }
        2 => {
            if input.last() == Some(&b'\n') {
                input.pop();
            }
        }
        3 => {
            let n = t.draw(40);
            let bytes: Vec<u8> = (0..n).map(|_| t.draw(256) as u8).collect();
            input.extend(bytes);
        }
        _ => {}
    }
}

impl Property for C09 {
    type Case = Case;

    fn id(&self) -> &'static str {
        "C09"
    }

    fn rule(&self) -> String {
        "accepted (definition, query) pairs from the C01-C05 generators with the hazard dial turned up (i64 extremes as literals and data, / 0, unary minus and abs of i64::MIN, pow, subscripts 0 / negative / huge, \
         SUM / AVG / STDDEV over extremes, PERCENTILE at 0 and 1, HAVING over all-NULL groups, NaN and infinities from REAL arithmetic and from the texts NaN / inf in data, text -> timestamp casts, TIMESTAMP columns and \
         date_trunc at local times that do not exist or are ambiguous) x input turned into arbitrary bytes (invalid UTF-8, NUL, 100 kB lines, no final newline, random tails) x output formats text / json / csv x the time zones \
         UTC, Europe/Stockholm, America/Sao_Paulo, Pacific/Apia, Australia/Lord_Howe, America/Havana (one supervised child process per zone). Oracle: the batch executor and the per-line engine return (Ok or Err) without panic, abort or hang; \
         the harness is built with overflow checks, so a silent wrap is a panic (exact-or-error of INT results is judged by C03's evaluator in its hazard mode). Pairs the parser rejects are counted, not executed. \
         Non-trivial: an accepted pair executed over >= 1 admitted line; distinct by case."
            .to_string()
    }

    fn assumptions(&self) -> Vec<String> {
        vec![
            "overflow-checks and debug-assertions are on in the build under test, so arithmetic wraps surface as panics".to_string(),
            "a hang is reported only if a case reproducibly exceeds the watchdog twice in isolation, otherwise the run is inconclusive (exit 2)".to_string(),
        ]
    }

    fn cases(&self, tier: Tier) -> u64 {
        // per time zone
        match tier {
            Tier::Quick => 120_000,
            Tier::Thorough => 600_000,
        }
    }

    fn tape_len(&self) -> usize {
        1000
    }

    fn shrink_iters(&self) -> u32 {
        4000
    }

    fn supervised(&self) -> bool {
        true
    }

    fn generate(&self, t: &mut Tape, ctx: &Ctx) -> Case {
        let format = ["json", "text", "csv"][t.draw(3)].to_string();
        let mut case = Case { defs: String::new(), query: String::new(), input: Vec::new(), joined_input: Vec::new(), format, kind: String::new(), structured: None, json_case: None };
        if t.chance(1, 25) {
            // date_trunc cuts to a boundary of the local clock in every zone (also where the offset changes by half an hour)
            case.kind = "trunc-invariant".into();
            case.format = "json".into();
            case.defs = "CREATE TABLE t(line = '^ts=(([0-9]+)-([0-9]+)-([0-9]+) ([0-9]+):([0-9]+):([0-9]+));', line[1] => ts TIMESTAMP, line[2], line[3], line[4], line[5], line[6], line[7] => gts TIMESTAMP, line[1] => raw TEXT);".into();
            case.query = "SELECT EXTRACT(MINUTE FROM date_trunc('hour', ts)) AS m, EXTRACT(SECOND FROM date_trunc('minute', ts)) AS s, EXTRACT(SECOND FROM date_trunc('hour', ts)) AS hs, \
                          (ts IS NULL) AS tn, (gts IS NULL) AS gn, (gts = ts) AS same, (gts = raw) AS same_text FROM t"
                .into();
            let n = 1 + t.draw(6);
            let lines: Vec<String> = (0..n)
                .map(|_| {
                    let base = *t.pick(&["2021-04-04 01:45:10", "2021-10-03 02:45:10", "2021-04-04 01:15:59", "2021-10-03 01:59:59", "2021-06-01 12:34:56", "2011-12-29 23:45:10", "2021-03-28 03:10:10", "2021-11-07 00:45:10"]);
                    format!("ts={};", if t.chance(1, 3) { (*t.pick(&DST_TIMES)).to_string() } else { base.to_string() })
                })
                .collect();
            case.input = lines_to_bytes(&lines);
            return case;
        }
        if t.chance(1, 150) {
            // more distinct regular expressions in one run than any cache of compiled patterns holds (each row brings its own)
            case.kind = "many-patterns".into();
            case.defs = "CREATE TABLE t(line = '^(\\\\S+) (\\\\S+)$', line[1] => subject TEXT, line[2] => rule TEXT);".into();
            case.query = format!("SELECT subject FROM t WHERE {}(subject, rule)", *t.pick(&["regex_matches", "regexp_matches"]));
            let n = *t.pick(&[300usize, 1023, 1024, 1025, 1100, 2100, 4200]);
            let offset = t.draw(1000);
            let lines: Vec<String> = (0..n).map(|i| format!("s{} s{}{}", i + offset, i + offset, if i % 7 == 3 { "x" } else { "" })).collect();
            case.input = lines_to_bytes(&lines);
            return case;
        }
        if t.chance(1, 150) {
            // one group whose values are of two types (a CASE with a TEXT and an INT branch), a few dozen of them: the median is taken over an order on all of them
            case.kind = "mixed-percentile".into();
            case.defs = "CREATE TABLE t(line = '^(\\\\S+) (-?[0-9]+)$', line[1] => status TEXT, line[2] => ms INT);".into();
            let p = *t.pick(&["0.5", "0.9", "0.0", "1.0", "0.25"]);
            case.query = format!("SELECT COUNT(*) AS requests, PERCENTILE(CASE WHEN status = 'timeout' THEN status ELSE ms END, {}) AS p, MAX(CASE WHEN status = 'timeout' THEN status ELSE ms END) AS hi FROM t{}", p, if t.chance(1, 2) { " GROUP BY status = 'none'" } else { "" });
            let n = 5 + t.draw(90);
            let lines: Vec<String> = (0..n).map(|_| format!("{} {}", *t.pick(&["ok", "timeout", "ok", "timeout", "error"]), t.range(-5, 2000))).collect();
            case.input = lines_to_bytes(&lines);
            return case;
        }
        match t.weighted(&[4, 3, 2, 1, 1, 3]) {
            0 => {
                case.kind = "select-hazard".into();
                let table = gen_table(t, "t", "c", true);
                let lines = gen_lines(t, &table, 10, true, true);
                let mut cols = table.cols.clone();
                cols.push(("input".to_string(), Ty::Text));
                let scope = Scope { cols };
                let mut cfg = GenCfg::rich();
                cfg.hazard = true;
                let mut g = TypedGen::new(&scope, cfg, ctx);
                let mut q = Select::simple(Vec::new(), "t");
                let n = 1 + t.draw(4);
                for i in 0..n {
                    let ty = *t.pick(&[Ty::Int, Ty::Int, Ty::Real, Ty::Text, Ty::Bool, Ty::Ts, Ty::Iv, Ty::IntArr]);
                    let depth = 1 + t.draw(4);
                    q.items.push((g.gen(t, ty, depth), Some(format!("r{}", i))));
                }
                if t.chance(1, 2) {
                    q.filter = Some(g.gen(t, Ty::Bool, 3));
                }
                if t.chance(1, 4) {
                    q.distinct = true;
                }
                if t.chance(1, 5) {
                    q.limit = Some(t.range(0, 3) as u64);
                }
                case.defs = table.definition();
                case.query = q.text();
                case.input = lines_to_bytes(&lines);
                if q.limit.is_none() && !q.distinct {
                    case.structured = Some(crate::props::c03::Case { table, lines, query: q });
                }
            }
            1 => {
                case.kind = "aggregate-hazard".into();
                let table = gen_table(t, "t", "c", false);
                let lines = gen_lines(t, &table, 12, true, true);
                let mut excluded = 0;
                let mut q = crate::props::c04::gen_aggregate_query(t, &table, ctx, true, &mut excluded);
                if t.chance(1, 4) {
                    q.distinct = true;
                }
                if t.chance(1, 5) {
                    q.limit = Some(t.range(0, 3) as u64);
                }
                case.defs = table.definition();
                case.query = q.text();
                case.input = lines_to_bytes(&lines);
            }
            2 => {
                case.kind = "join".into();
                let c = crate::props::c05::C05.generate(t, ctx);
                case.defs = format!("{} {}", c.left.definition(), c.right.definition());
                case.query = c.query.text();
                case.input = lines_to_bytes(&c.left_lines);
                case.joined_input = lines_to_bytes(&c.right_lines);
            }
            3 => {
                case.kind = "regex-table".into();
                let c = crate::props::c01::C01.generate(t, ctx);
                case.defs = c.def.text();
                case.query = "SELECT * FROM t".into();
                case.input = lines_to_bytes(&c.lines);
            }
            4 => {
                case.kind = "json-table".into();
                let c = crate::props::c02::C02.generate(t, ctx);
                case.defs = c.def.text();
                case.query = if t.chance(1, 2) { "SELECT * FROM t".into() } else { "SELECT COUNT(*) AS n FROM t".into() };
                case.input = lines_to_bytes(&c.lines);
                case.json_case = Some(c);
            }
            _ => {
                case.kind = "timezone".into();
                // timestamps reach the engine as a regex column, a JSON CONVERT column and as casts of literals
                case.defs = "CREATE TABLE t(line = '^ts=([^;]*);n=(-?[0-9]*);', line[1] => ts TIMESTAMP, line[2] => n INT, { .ts } => jts TIMESTAMP CONVERT, line[1] => raw TEXT);".into();
                let n = 1 + t.draw(5);
                let mut lines = Vec::new();
                for _ in 0..n {
                    let ts = *t.pick(&DST_TIMES);
                    if t.chance(1, 3) {
                        lines.push(format!("{{\"ts\": \"{}\"}}", ts));
                    } else {
                        lines.push(format!("ts={};n={};", ts, t.range(-3, 30)));
                    }
                }
                let lit = |t: &mut Tape| E::cast(E::Str(t.pick(&DST_TIMES).to_string()), "timestamp");
                let tsx = |t: &mut Tape| match t.draw(4) {
                    0 => E::col("ts"),
                    1 => E::col("jts"),
                    2 => E::cast(E::col("raw"), "timestamp"),
                    _ => lit(t),
                };
                let mut q = Select::simple(Vec::new(), "t");
                let k = 1 + t.draw(4);
                for i in 0..k {
                    let base = tsx(t);
                    let e = match t.draw(9) {
                        0 => E::call("date_trunc", vec![E::Str(t.pick(&["year", "month", "day", "hour", "minute", "second"]).to_string()), base]),
                        1 => E::Extract(t.pick(&["EPOCH", "YEAR", "MONTH", "DAY", "HOUR", "MINUTE", "SECOND"]).to_string(), Box::new(base)),
                        2 => E::bin(BinOp::Add, base, E::cast(E::Str(t.pick(&["0:30:00", "1:00:00", "24:00:00", "9999999:00:00", "99999999999999:00:00", "0:999999999999999999:0", "0:0:9223372036854775807", "-1:00:00"]).to_string()), "interval")),
                        3 => E::bin(BinOp::Sub, base, E::cast(E::Str(t.pick(&["0:30:00", "1:00:00", "24:00:00"]).to_string()), "interval")),
                        4 => E::bin(BinOp::Sub, base, tsx(t)),
                        5 => E::bin(*t.pick(&BinOp::CMP), base, E::Str(t.pick(&DST_TIMES).to_string())),
                        6 => E::call("make_timestamp", vec![E::Int(*t.pick(&[2018, 2021, 2011])), E::Int(*t.pick(&[3, 10, 11, 12, 9])), E::Int(*t.pick(&[4, 28, 30, 31, 26, 3])), E::Int(t.range(0, 3)), E::Int(30), E::Int(0), E::Int(0)]),
                        7 => E::call(if t.chance(1, 2) { "least" } else { "greatest" }, vec![base, tsx(t)]),
                        _ => base,
                    };
                    q.items.push((e, Some(format!("r{}", i))));
                }
                if t.chance(1, 3) {
                    q.group_by.push(E::call("date_trunc", vec![E::Str("day".into()), E::col("ts")]));
                    q.items = vec![(q.group_by[0].clone(), Some("k".into())), (E::Agg("COUNT".into(), false, vec![E::Star]), Some("n".into())), (E::Agg("MIN".into(), false, vec![E::col("ts")]), Some("lo".into()))];
                }
                case.query = q.text();
                case.input = lines_to_bytes(&lines);
            }
        }
        if t.chance(1, 3) {
            mutate_bytes(t, &mut case.input);
            case.structured = None;
            case.json_case = None;
        }
        if !case.joined_input.is_empty() && t.chance(1, 4) {
            mutate_bytes(t, &mut case.joined_input);
        }
        case
    }

    fn check(&self, case: &Case, ctx: &Ctx, obs: &mut Obs) -> Result<(), Failure> {
        let context = || format!("TZ={} format={} kind={}\n  query: {}\n  definitions: {}\n  input: {:?}", std::env::var("TZ").unwrap_or_default(), case.format, case.kind, case.query, case.defs, String::from_utf8_lossy(&case.input[..case.input.len().min(600)]));
        let tables = match build_tables(&case.defs) {
            Ok(t) => t,
            Err(e) if e.starts_with("panic") => return Err(Failure::new(format!("panic in parse: {}", crate::run::panic_class(&e)), format!("{}\n  {}", e, context()))),
            Err(_) => {
                obs.label("rejected-definition");
                return Ok(());
            }
        };
        let jpath = ctx.file("c09-joined.txt");
        write_file(&jpath, &case.joined_input);
        let query = case.query.replace("JOINED", &jpath.to_string_lossy());
        let statement = match parse_statement(&query) {
            Ok(s) => s,
            Err(e) if e.starts_with("panic") => return Err(Failure::new(format!("panic in parse: {}", crate::run::panic_class(&e)), format!("{}\n  {}", e, context()))),
            Err(_) => {
                obs.label("rejected-query");
                return Ok(());
            }
        };
        obs.label(match case.kind.as_str() {
            "select-hazard" => "select-hazard",
            "aggregate-hazard" => "aggregate-hazard",
            "join" => "join",
            "regex-table" => "regex-table",
            "json-table" => "json-table",
            "trunc-invariant" => "timezone",
            "many-patterns" => "many-patterns",
            "mixed-percentile" => "mixed-percentile",
            _ => "timezone",
        });
        if std::str::from_utf8(&case.input).is_err() {
            obs.label("invalid-utf8-input");
        }
        let format = match case.format.as_str() {
            "json" => OutputFormat::Json,
            "csv" => OutputFormat::CSV(";".into()),
            _ => OutputFormat::Text,
        };
        let files = scratch_files(ctx, "c09", &[case.input.clone()]);
        let options = RunOptions { format, single_result: false, ..RunOptions::default() };
        let sig = |p: &str| format!("panic: {}", crate::run::panic_class(p));
        let out = run_batch(&tables, &statement, &files, options).map_err(|p| Failure::new(sig(&p), format!("the batch executor panicked: {}\n  {}", p, context())))?;
        if out.total_lines > 0 {
            obs.nontrivial = true;
        }
        if out.result.is_err() {
            obs.label("execution-error");
        }
        if case.kind == "trunc-invariant" {
            obs.label("trunc-invariant");
            for rec in out.records() {
                if let Ok(j) = crate::value::parse_json(&rec) {
                    // the same wall-clock text read through one group and assembled from six groups is one instant (also
                    // where the local time occurs twice)
                    if j.get("tn") == Some(&crate::value::J::Bool(false)) && j.get("gn") == Some(&crate::value::J::Bool(false)) {
                        for key in ["same", "same_text"] {
                            if j.get(key) == Some(&crate::value::J::Bool(false)) {
                                return Err(Failure::new(
                                    "timestamp: the same local time is two different instants",
                                    format!("{} is false: a TIMESTAMP read from one group / a text and the TIMESTAMP assembled from the same digits differ\n  record {}\n  {}", key, rec, context()),
                                ));
                            }
                        }
                    }
                    for key in ["m", "s", "hs"] {
                        match j.get(key) {
                            Some(crate::value::J::Num(n)) if n.parse::<f64>().map(|x| x != 0.0).unwrap_or(true) => {
                                return Err(Failure::new(
                                    "date_trunc: the result is not on a boundary of the local clock",
                                    format!("{} = {} (minute of date_trunc('hour', ts) / second of date_trunc('minute' | 'hour', ts) must be 0)\n  record {}\n  {}", key, n, rec, context()),
                                ));
                            }
                            _ => {}
                        }
                    }
                }
            }
        }
        // "silently wraps a number": an `as` cast or a wrapping operation does not panic even in the checked build, so
        // INT results are also judged exact-or-error by the reference evaluator (TZ=UTC, unmutated input)
        if let Some(structured) = &case.structured {
            if std::env::var("TZ").map(|z| z == "UTC").unwrap_or(true) {
                obs.label("exact-or-error-judged");
                let mut inner_obs = Obs::default();
                if let Err(f) = crate::props::c03::C03.check(structured, ctx, &mut inner_obs) {
                    let arithmetic = ["add:", "mul:", "call:abs", "call:pow", "neg", "index", "call:make_timestamp"].iter().any(|k| f.signature.contains(k));
                    if arithmetic && (f.signature.starts_with("missing-error") || f.signature.starts_with("value-mismatch")) {
                        return Err(Failure::new(format!("silent-wrap: {}", f.signature), format!("a number was silently altered instead of reported: {}", f.message)));
                    }
                }
            }
        }
        if let Some(json_case) = &case.json_case {
            let mut inner_obs = Obs::default();
            if let Err(f) = crate::props::c02::C02.check(json_case, ctx, &mut inner_obs) {
                if f.signature.starts_with("value: json int") && (f.message.contains("Int(9223372036854775807)") || f.message.contains("Int(-9223372036854775808)")) {
                    return Err(Failure::new("silent-wrap: json int saturated", format!("a number was silently altered instead of reported: {}", f.message)));
                }
            }
        }
        // the per-line (follow) path over the valid lines
        if statement.join_clause().is_none() {
            let mut engine = ExecutionEngine::new(&tables, &statement);
            for line in String::from_utf8_lossy(&case.input).lines().take(40) {
                obs.inner += 1;
                match engine_line(&mut engine, line, &ExecutionConfig::default()) {
                    Ok(Ok(lo)) => {
                        if let Some(rr) = lo.result {
                            // printing is part of execution
                            let printed = crate::run::catch(|| {
                                let printer = CapPrinter { lines: Vec::new(), stop_after: None, running: Default::default() };
                                let mut p = sqlgrep::executor::OutputPrinter::with_printer(printer, OutputFormat::Text);
                                p.print(&rr, true);
                            });
                            if let Err(p) = printed {
                                return Err(Failure::new(sig(&p), format!("printing a per-line result panicked: {}\n  {}", p, context())));
                            }
                        }
                        if lo.reached_limit {
                            break;
                        }
                    }
                    Ok(Err(_)) => break,
                    Err(p) => return Err(Failure::new(sig(&p), format!("the per-line engine panicked on {:?}: {}\n  {}", line, p, context()))),
                }
            }
        }
        Ok(())
    }
}
