//! C20 — a statement's meaning does not depend on layout, letter case or clause order.
//!
//! Oracle (metamorphic, inside one build): Debug(parse(variant)) == Debug(parse(base)); literal contents = intended.

use serde::{Deserialize, Serialize};

use crate::gen_stmt::*;
use crate::props::c13::parse_debug;
use crate::run::{catch, Ctx, Failure, Obs, Property, Tier};
use crate::sql::*;
use crate::stmt::*;
use crate::tape::Tape;

#[derive(Clone, Debug, Serialize, Deserialize)]
pub struct Case {
    pub select: Option<Select>,
    pub tables: Vec<TableDef>,
    /// the re-laid-out text
    pub variant: String,
    /// layout dimensions in which the variant differs from the base
    pub dims: Vec<String>,
}

pub struct C20;

impl Case {
    pub fn base_tokens(&self) -> Vec<Tok> {
        match &self.select {
            Some(s) => s.tokens(&Renderer::full()),
            None => self.tables.iter().flat_map(|t| t.tokens()).collect(),
        }
    }
}

fn permutations(items: &[Clause]) -> Vec<Vec<Clause>> {
    if items.len() <= 1 {
        return vec![items.to_vec()];
    }
    let mut out = Vec::new();
    for i in 0..items.len() {
        let mut rest = items.to_vec();
        let head = rest.remove(i);
        for mut p in permutations(&rest) {
            p.insert(0, head);
            out.push(p);
        }
    }
    out
}

fn collect_strings(tree: &sqlgrep::model::ExpressionTree, out: &mut Vec<String>) {
    use sqlgrep::model::{ExpressionTree, Value};
    let _ = tree.visit::<(), _>(&mut |n| {
        if let ExpressionTree::Value(Value::String(s)) = n {
            out.push(s.clone());
        }
        Ok(())
    });
}

fn aggregate_strings(agg: &sqlgrep::model::Aggregate, out: &mut Vec<String>) {
    use sqlgrep::model::Aggregate::*;
    match agg {
        GroupKey(e) | Min(e) | Max(e) | Sum(e) | Average(e) | StandardDeviation(e, _) | Percentile(e, _) | BoolAnd(e) | BoolOr(e) | CollectArray(e) => collect_strings(e, out),
        CollectString(e, d) => {
            collect_strings(e, out);
            out.push(d.clone());
        }
        Count(_, _) => {}
    }
}

/// (file names, string literals) found in a parsed statement
fn parsed_strings(st: &sqlgrep::Statement) -> (Vec<String>, Vec<String>, Vec<String>) {
    let mut files = Vec::new();
    let mut strings = Vec::new();
    let mut patterns = Vec::new();
    match st {
        sqlgrep::Statement::Select(s) => {
            files.extend(s.filename.clone());
            files.extend(s.join.as_ref().map(|j| j.joined_filename.clone()));
            for (_, e) in &s.projections {
                collect_strings(e, &mut strings);
            }
            if let Some(f) = &s.filter {
                collect_strings(f, &mut strings);
            }
        }
        sqlgrep::Statement::Aggregate(s) => {
            files.extend(s.filename.clone());
            files.extend(s.join.as_ref().map(|j| j.joined_filename.clone()));
            for a in &s.aggregates {
                aggregate_strings(&a.aggregate, &mut strings);
            }
            if let Some(f) = &s.filter {
                collect_strings(f, &mut strings);
            }
            for g in s.group_by.iter().flatten() {
                collect_strings(g, &mut strings);
            }
            if let Some(h) = &s.having {
                // aggregates inside HAVING are nodes of the tree; their inner expressions are not visited by `visit`
                // for COUNT; strings in them are compared through Debug equality only
                let _ = h.visit::<(), _>(&mut |n| {
                    match n {
                        sqlgrep::model::ExpressionTree::Value(sqlgrep::model::Value::String(s)) => strings.push(s.clone()),
                        sqlgrep::model::ExpressionTree::Aggregate(_, a) => {
                            if let sqlgrep::model::Aggregate::CollectString(_, d) = a.as_ref() {
                                strings.push(d.clone());
                            }
                        }
                        _ => {}
                    }
                    Ok(())
                });
            }
        }
        sqlgrep::Statement::CreateTable(t) => {
            patterns.extend(t.patterns.iter().map(|p| p.1.as_str().to_string()));
            for c in &t.columns {
                if let Some(sqlgrep::model::Value::String(s)) = &c.options.default_value {
                    strings.push(s.clone());
                }
            }
        }
        sqlgrep::Statement::Multiple(list) => {
            for st in list {
                let (f, s, p) = parsed_strings(st);
                files.extend(f);
                strings.extend(s);
                patterns.extend(p);
            }
        }
    }
    (files, strings, patterns)
}

fn sorted(mut v: Vec<String>) -> Vec<String> {
    v.sort();
    v
}

impl Property for C20 {
    type Case = Case;

    fn id(&self) -> &'static str {
        "C20"
    }

    fn rule(&self) -> String {
        "valid SELECT / aggregate / CREATE TABLE statements built as token lists (all clauses, joins, aggregates, every column source, type and modifier, \
         string literals containing keywords, `--`, quotes, backslashes, newlines), re-laid out at token boundaries: per-letter case flips of keywords, \
         function/aggregate/type names and literal words; whitespace kinds and runs; removal of optional whitespace; `--` comments; trailing semicolon; \
         plus, per case, every permutation of the JOIN/WHERE/GROUP BY/HAVING/LIMIT clauses present. Oracle: Debug(parse(variant)) == Debug(parse(base)) and \
         the literal strings found in the parsed statement equal the intended ones. Non-trivial: the base parses and the variant differs from it in >= 3 of the \
         dimensions {case, whitespace, tight, comments, clause order}; distinct by variant text."
            .to_string()
    }

    fn assumptions(&self) -> Vec<String> {
        vec![
            "Debug of sqlgrep::Statement is structural (regexes print their source)".to_string(),
            "token boundaries of the generator are true token boundaries of the documented syntax; two-character operators are <= >= != => :: and --".to_string(),
        ]
    }

    fn cases(&self, tier: Tier) -> u64 {
        match tier {
            Tier::Quick => 200_000,
            Tier::Thorough => 3_000_000,
        }
    }

    fn tape_len(&self) -> usize {
        700
    }

    fn label_floors(&self) -> Vec<(&'static str, f64)> {
        vec![("base-accepted", 0.9), ("create-table", 0.15), ("aggregate", 0.1), ("clause-permutations", 0.1)]
    }

    fn generate(&self, t: &mut Tape, ctx: &Ctx) -> Case {
        let (select, tables) = if t.chance(1, 3) {
            let n = 1 + t.draw(2);
            (None, (0..n).map(|i| gen_tabledef(t, ["t", "Conn2"][i])).collect())
        } else {
            (Some(gen_select(t, ctx)), Vec::new())
        };
        let mut case = Case { select, tables, variant: String::new(), dims: Vec::new() };
        let tokens = case.base_tokens();
        let mut dims = LayoutDims::default();
        case.variant = apply_layout(t, &tokens, &mut dims, !ctx.excluded("c20_cast_type_case"));
        if dims.case {
            case.dims.push("case".into());
        }
        if dims.whitespace {
            case.dims.push("whitespace".into());
        }
        if dims.tight {
            case.dims.push("tight".into());
        }
        if dims.comments {
            case.dims.push("comments".into());
        }
        case
    }

    fn check(&self, case: &Case, _ctx: &Ctx, obs: &mut Obs) -> Result<(), Failure> {
        let base_text = join_canonical(&case.base_tokens());
        let base = match parse_debug(&base_text) {
            Ok(d) => d,
            Err(e) => {
                if e.starts_with("panic") {
                    return Err(Failure::new(format!("base-{}", e), format!("`{}`: {}", base_text, e)));
                }
                obs.label("base-rejected");
                obs.unspecified += 1;
                return Ok(());
            }
        };
        obs.label("base-accepted");
        if case.select.is_none() {
            obs.label("create-table");
        }
        if base.starts_with("Aggregate") {
            obs.label("aggregate");
        }
        let dims = if case.dims.is_empty() { "none".to_string() } else { case.dims.join("+") };

        // 1. layout variant
        match parse_debug(&case.variant) {
            Ok(v) => {
                if v != base {
                    return Err(Failure::new(
                        format!("variant-differs: {}", dims),
                        format!("variant parses differently\n  base:    `{}`\n  variant: {:?}\n  base ->    {}\n  variant -> {}", base_text, case.variant, base, v),
                    ));
                }
            }
            Err(e) => {
                return Err(Failure::new(
                    format!("variant-{}: {}", if e.starts_with("panic") { "panic" } else { "rejected" }, dims),
                    format!("variant is not accepted although the base is\n  base:    `{}`\n  variant: {:?}\n  {}", base_text, case.variant, e),
                ));
            }
        }

        // 2. every permutation of the clauses present
        let mut n_dims = case.dims.len();
        if let Some(sel) = &case.select {
            let present = sel.present();
            if present.len() >= 2 {
                obs.label("clause-permutations");
                n_dims += 1;
                for perm in permutations(&present) {
                    let mut s = sel.clone();
                    s.order = perm.clone();
                    let text = s.text();
                    obs.inner += 1;
                    match parse_debug(&text) {
                        Ok(v) if v == base => {}
                        Ok(v) => {
                            return Err(Failure::new("clause-order-differs", format!("`{}` parses differently from `{}`\n  {}\n  {}", text, base_text, v, base)));
                        }
                        Err(e) => {
                            return Err(Failure::new(
                                format!("clause-order-{}", if e.starts_with("panic") { "panic" } else { "rejected" }),
                                format!("`{}` is not accepted although `{}` is: {}", text, base_text, e),
                            ));
                        }
                    }
                }
            }
            // trailing semicolon toggled
            let mut s = sel.clone();
            s.semicolon = !s.semicolon;
            match parse_debug(&s.text()) {
                Ok(v) if v == base => {}
                other => return Err(Failure::new("semicolon", format!("`{}` vs `{}`: {:?}", s.text(), base_text, other.err()))),
            }
        }

        // the semicolon after the (last) CREATE TABLE of a text is optional as well
        if case.select.is_none() && !case.tables.is_empty() {
            let tokens = case.base_tokens();
            if tokens.last().map(|t| t.text == ";").unwrap_or(false) {
                let without = join_canonical(&tokens[..tokens.len() - 1]);
                obs.inner += 1;
                match parse_debug(&without) {
                    Ok(v) if v == base => {}
                    other => return Err(Failure::new("semicolon: create table", format!("`{}` (no trailing semicolon) vs `{}`: {:?}", without, base_text, other.err()))),
                }
            }
        }

        // 3. literal fidelity
        let parsed = catch(|| sqlgrep::parsing::parse(&case.variant)).ok().and_then(|r| r.ok());
        if let Some(st) = parsed {
            let (files, strings, patterns) = parsed_strings(&st);
            let (want_files, want_strings, want_patterns) = match &case.select {
                Some(sel) => {
                    let mut f: Vec<String> = Vec::new();
                    f.extend(sel.filename.clone());
                    f.extend(sel.join.as_ref().map(|j| j.file.clone()));
                    (f, sel.strings(), Vec::new())
                }
                None => {
                    let mut strings = Vec::new();
                    for t in &case.tables {
                        for e in &t.entries {
                            if let Entry::Column { modifier: Some(Modifier::Default(E::Str(s))), .. } = e {
                                strings.push(s.clone());
                            }
                        }
                    }
                    (Vec::new(), strings, case.tables.iter().flat_map(|t| t.patterns()).collect())
                }
            };
            if sorted(files.clone()) != sorted(want_files.clone()) {
                return Err(Failure::new("literal-altered: file", format!("file names {:?}, intended {:?} in {:?}", files, want_files, case.variant)));
            }
            if patterns != want_patterns {
                return Err(Failure::new("literal-altered: pattern", format!("patterns {:?}, intended {:?} in {:?}", patterns, want_patterns, case.variant)));
            }
            if sorted(strings.clone()) != sorted(want_strings.clone()) {
                return Err(Failure::new("literal-altered: string", format!("strings {:?}, intended {:?} in {:?}", strings, want_strings, case.variant)));
            }
        }
        obs.nontrivial = n_dims >= 3;
        for d in &case.dims {
            match d.as_str() {
                "case" => obs.label("dim-case"),
                "whitespace" => obs.label("dim-whitespace"),
                "tight" => obs.label("dim-tight"),
                "comments" => obs.label("dim-comments"),
                _ => {}
            }
        }
        Ok(())
    }
}
