//! C13 — expressions group by standard SQL operator precedence and associativity.
//!
//! Oracle (metamorphic, inside one build): Debug(parse(minimal text)) == Debug(parse(fully parenthesised text)).

use std::sync::OnceLock;

use serde::{Deserialize, Serialize};

use crate::run::{catch, panic_class, Ctx, Failure, Obs, Property, Tier};
use crate::sql::*;
use crate::tape::Tape;

#[derive(Clone, Debug, Serialize, Deserialize)]
pub struct Case {
    pub expr: E,
    /// 0 = select list, 1 = WHERE, 2 = select list with alias + WHERE TRUE
    pub position: u8,
    /// write the minimal text without optional whitespace
    pub tight: bool,
    /// whitespace runs that replace the single spaces of the minimal text (see `vary_whitespace`); empty = spaces
    #[serde(default)]
    pub breaks: Vec<u8>,
}

pub struct C13;

pub fn parse_debug(text: &str) -> Result<String, String> {
    match catch(|| sqlgrep::parsing::parse(text)) {
        Ok(Ok(st)) => Ok(format!("{:?}", st)),
        Ok(Err(e)) => Err(format!("rejected: {}", e)),
        Err(p) => Err(format!("panic: {}", panic_class(&p))),
    }
}

const COLS: [&str; 6] = ["x", "y", "z", "a", "b", "t.x"];
const TYPES: [&str; 6] = ["int", "real", "text", "boolean", "timestamp", "interval"];
const FUNCS1: [&str; 6] = ["abs", "sqrt", "length", "upper", "lower", "array_length"];
const FUNCS2: [&str; 5] = ["least", "greatest", "pow", "array_cat", "regexp_matches"];
const PARTS: [&str; 4] = ["EPOCH", "YEAR", "HOUR", "SECOND"];

fn gen_atom(t: &mut Tape) -> E {
    match t.weighted(&[6, 3, 1, 1, 1, 1, 1]) {
        0 => E::col(*t.pick(&COLS)),
        1 => E::Int(t.range(0, 9)),
        2 => E::Real(format!("{}.{}", t.range(0, 9), t.range(0, 9))),
        3 => E::Str(["a", "b c", "it's", "1"][t.draw(4)].to_string()),
        4 => E::Null,
        5 => E::True,
        _ => E::False,
    }
}

pub fn gen_expr(t: &mut Tape, depth: usize, ctx: &Ctx, obs_excluded: &mut u64) -> E {
    if depth == 0 || t.chance(1, 5) {
        return gen_atom(t);
    }
    let d = depth - 1;
    match t.weighted(&[12, 3, 3, 2, 2, 2, 2, 2, 1, 1, 1]) {
        0 => {
            let op = *t.pick(&BinOp::ALL);
            E::bin(op, gen_expr(t, d, ctx, obs_excluded), gen_expr(t, d, ctx, obs_excluded))
        }
        1 => E::Neg(Box::new(gen_expr(t, d, ctx, obs_excluded))),
        2 => E::Not(Box::new(gen_expr(t, d, ctx, obs_excluded))),
        3 => {
            let not = t.chance(1, 2);
            let l = gen_expr(t, d, ctx, obs_excluded);
            let r = if t.chance(1, 4) { gen_expr(t, d.min(1), ctx, obs_excluded) } else { E::Null };
            E::Is { not, l: Box::new(l), r: Box::new(r) }
        }
        4 => {
            let not = t.chance(1, 2);
            let x = gen_expr(t, d, ctx, obs_excluded);
            let mut n = 1 + t.draw(3);
            if n == 1 && ctx.excluded("c13_in_single") {
                *obs_excluded += 1;
                n = 2;
            }
            let list = (0..n).map(|_| gen_expr(t, d.min(1), ctx, obs_excluded)).collect();
            E::In { not, x: Box::new(x), list }
        }
        5 => E::Cast(Box::new(gen_expr(t, d, ctx, obs_excluded)), t.pick(&TYPES).to_string()),
        6 => E::Index(Box::new(gen_expr(t, d, ctx, obs_excluded)), Box::new(gen_expr(t, d, ctx, obs_excluded))),
        7 => {
            if t.chance(1, 2) {
                E::call(*t.pick(&FUNCS1), vec![gen_expr(t, d, ctx, obs_excluded)])
            } else {
                E::call(*t.pick(&FUNCS2), vec![gen_expr(t, d, ctx, obs_excluded), gen_expr(t, d, ctx, obs_excluded)])
            }
        }
        8 => {
            let n = 1 + t.draw(2);
            let clauses = (0..n).map(|_| (gen_expr(t, d, ctx, obs_excluded), gen_expr(t, d, ctx, obs_excluded))).collect();
            E::Case(clauses, Box::new(gen_expr(t, d, ctx, obs_excluded)))
        }
        9 => {
            let n = 1 + t.draw(3);
            E::Array((0..n).map(|_| gen_expr(t, d.min(1), ctx, obs_excluded)).collect())
        }
        _ => E::Extract(t.pick(&PARTS).to_string(), Box::new(gen_expr(t, d, ctx, obs_excluded))),
    }
}

pub fn class(e: &E) -> &'static str {
    match e {
        E::Bin(BinOp::Or, _, _) => "or",
        E::Bin(BinOp::And, _, _) => "and",
        E::Bin(BinOp::Eq, _, _) | E::Bin(BinOp::Ne, _, _) => "eq",
        E::Bin(o, _, _) if o.is_cmp() => "rel",
        E::Bin(BinOp::Add, _, _) | E::Bin(BinOp::Sub, _, _) => "add",
        E::Bin(_, _, _) => "mul",
        E::Is { .. } => "is",
        E::In { .. } => "in",
        E::Not(_) => "not",
        E::Neg(_) => "neg",
        E::Cast(_, _) => "cast",
        E::Index(_, _) => "index",
        E::Col(n) if n.contains('.') => "qualified",
        E::Call(_, _) | E::Agg(_, _, _) => "call",
        E::Case(_, _) => "case",
        E::Array(_) => "array",
        E::Extract(_, _) => "extract",
        _ => "atom",
    }
}

/// Operator adjacencies that the minimal text leaves without parentheses: (parent, child, side).
pub fn bare_pairs(e: &E) -> Vec<(&'static str, &'static str, &'static str)> {
    let mut out = Vec::new();
    fn walk(e: &E, out: &mut Vec<(&'static str, &'static str, &'static str)>) {
        let mut push = |child: &E, side: &'static str, need: bool| {
            let compound = child.level() != LEVEL_ATOM || child.is_qualified();
            if compound && !need {
                out.push((class(e), class(child), side));
            }
        };
        match e {
            E::Neg(a) => push(a, "prefix", a.level() < LEVEL_POSTFIX),
            E::Not(a) => push(a, "prefix", a.level() < LEVEL_NOT),
            E::Bin(o, l, r) => {
                push(l, "left", l.level() < o.level());
                push(r, "right", r.level() <= o.level());
            }
            E::Is { l, r, .. } => {
                push(l, "left", l.level() < LEVEL_CMP);
                push(r, "right", r.level() <= LEVEL_CMP);
            }
            E::In { x, .. } => push(x, "left", x.level() < LEVEL_CMP),
            E::Cast(a, _) | E::Index(a, _) => push(a, "base", a.level() < LEVEL_POSTFIX),
            _ => {}
        }
        for c in e.children() {
            walk(c, out);
        }
    }
    walk(e, &mut out);
    out
}

fn has_single_in(e: &E) -> bool {
    let mut found = false;
    e.visit(&mut |n| {
        if let E::In { list, .. } = n {
            if list.len() == 1 {
                found = true;
            }
        }
    });
    found
}

fn statement(position: u8, expr_text: &str) -> String {
    match position {
        0 => format!("SELECT {} FROM t", expr_text),
        1 => format!("SELECT x FROM t WHERE {}", expr_text),
        _ => format!("SELECT {} AS r, y FROM t WHERE TRUE", expr_text),
    }
}

struct EnumItem {
    expr: E,
}

fn enum_items() -> &'static Vec<EnumItem> {
    static ITEMS: OnceLock<Vec<EnumItem>> = OnceLock::new();
    ITEMS.get_or_init(|| {
        let x = || E::col("x");
        let y = || E::col("y");
        let z = || E::col("z");
        // binary-like constructors
        let mut bins: Vec<Box<dyn Fn(E, E) -> E>> = Vec::new();
        for op in BinOp::ALL {
            bins.push(Box::new(move |l, r| E::bin(op, l, r)));
        }
        bins.push(Box::new(|l, r| E::Is { not: false, l: Box::new(l), r: Box::new(r) }));
        bins.push(Box::new(|l, r| E::Is { not: true, l: Box::new(l), r: Box::new(r) }));
        // IN: the right "operand" is the list
        bins.push(Box::new(|l, r| E::In { not: false, x: Box::new(l), list: vec![r, E::Int(2)] }));
        bins.push(Box::new(|l, r| E::In { not: true, x: Box::new(l), list: vec![r, E::Int(2)] }));
        let prefixes: Vec<Box<dyn Fn(E) -> E>> = vec![Box::new(|a| E::Neg(Box::new(a))), Box::new(|a| E::Not(Box::new(a)))];
        let postfixes: Vec<Box<dyn Fn(E) -> E>> = vec![
            Box::new(|a| E::Cast(Box::new(a), "int".to_string())),
            Box::new(|a| E::Index(Box::new(a), Box::new(E::Int(1)))),
            Box::new(|a| E::Index(Box::new(a), Box::new(E::bin(BinOp::Add, E::col("i"), E::Int(1))))),
        ];
        let mut items = Vec::new();
        for a in &bins {
            for b in &bins {
                // x A y B z, both trees
                items.push(EnumItem { expr: b(a(x(), y()), z()) });
                items.push(EnumItem { expr: a(x(), b(y(), z())) });
            }
            for p in &prefixes {
                items.push(EnumItem { expr: a(p(x()), y()) });
                items.push(EnumItem { expr: a(x(), p(y())) });
                items.push(EnumItem { expr: p(a(x(), y())) });
            }
            for q in &postfixes {
                items.push(EnumItem { expr: a(q(x()), y()) });
                items.push(EnumItem { expr: a(x(), q(y())) });
                items.push(EnumItem { expr: q(a(x(), y())) });
                items.push(EnumItem { expr: a(q(E::col("t.x")), y()) });
            }
        }
        for p in &prefixes {
            for q in &postfixes {
                items.push(EnumItem { expr: p(q(x())) });
                items.push(EnumItem { expr: q(p(x())) });
                items.push(EnumItem { expr: p(q(E::col("t.x"))) });
            }
            for p2 in &prefixes {
                items.push(EnumItem { expr: p(p2(x())) });
            }
            items.push(EnumItem { expr: p(E::col("t.x")) });
            items.push(EnumItem { expr: p(E::Int(1)) });
        }
        for q in &postfixes {
            for q2 in &postfixes {
                items.push(EnumItem { expr: q2(q(x())) });
            }
        }
        // parenthesised operand in every operand position is exercised by the Full rendering itself;
        // one-element IN lists
        items.push(EnumItem { expr: E::In { not: false, x: Box::new(x()), list: vec![E::Int(1)] } });
        items.push(EnumItem { expr: E::In { not: true, x: Box::new(x()), list: vec![E::Neg(Box::new(E::Int(1)))] } });
        items
    })
}

impl Property for C13 {
    type Case = Case;

    fn id(&self) -> &'static str {
        "C13"
    }

    fn rule(&self) -> String {
        "random expression ASTs (depth <= 5) over all operators, IS/IN, NOT, unary minus, casts, subscripts, qualified names, calls, CASE, array[], EXTRACT, \
         printed with minimal parentheses under the reference grammar (spaced and tight layouts, in the select list and in WHERE) and compared with the fully \
         parenthesised text by Debug(parse(..)); plus the complete table of operator pairs x shapes. Non-trivial: the minimal text leaves >= 1 operator \
         adjacency without parentheses (the parser has to choose a grouping); distinct by case text."
            .to_string()
    }

    fn assumptions(&self) -> Vec<String> {
        vec![
            "Debug of sqlgrep::Statement is injective on statement structure (it derives Debug, no locations inside)".to_string(),
            "a fully parenthesised text leaves the parser no grouping freedom".to_string(),
        ]
    }

    fn cases(&self, tier: Tier) -> u64 {
        match tier {
            Tier::Quick => 1_200_000,
            Tier::Thorough => 10_000_000,
        }
    }

    fn tape_len(&self) -> usize {
        160
    }

    fn generate(&self, t: &mut Tape, ctx: &Ctx) -> Case {
        let position = t.draw(3) as u8;
        let tight = t.chance(1, 3);
        let depth = 1 + t.draw(5);
        let mut excluded = 0;
        let expr = gen_expr(t, depth, ctx, &mut excluded);
        let mut breaks = Vec::new();
        if t.chance(1, 4) {
            let n = 1 + t.draw(5);
            for _ in 0..n {
                breaks.push(t.weighted(&[3, 4, 1, 1, 1, 1]) as u8);
            }
        }
        Case { expr, position, tight, breaks }
    }

    fn enum_count(&self, _tier: Tier, _ctx: &Ctx) -> u64 {
        enum_items().len() as u64 * 4
    }

    fn enum_case(&self, index: u64, _tier: Tier, ctx: &Ctx) -> Option<Case> {
        let items = enum_items();
        let item = &items[(index / 4) as usize];
        if ctx.excluded("c13_in_single") && has_single_in(&item.expr) {
            return None;
        }
        Some(Case { expr: item.expr.clone(), position: (index % 2) as u8, tight: (index / 2) % 2 == 1, breaks: Vec::new() })
    }

    fn enum_description(&self) -> Option<String> {
        Some("every ordered pair of binary-like operators (12 symbolic/boolean + IS, IS NOT, IN, NOT IN) in both tree shapes, every binary x prefix (unary minus, NOT) and binary x postfix (cast, subscript) combination in three shapes, prefix x postfix, postfix x postfix, one-element IN; each in select list and WHERE, spaced and tight".to_string())
    }

    fn check(&self, case: &Case, _ctx: &Ctx, obs: &mut Obs) -> Result<(), Failure> {
        let min_tokens = Renderer::minimal().expr(&case.expr);
        let full_tokens = Renderer::full().expr(&case.expr);
        let min_text = vary_whitespace(&if case.tight { join_tight(&min_tokens) } else { join_canonical(&min_tokens) }, &case.breaks);
        if case.breaks.iter().any(|b| matches!(b, 1 | 3 | 4)) {
            obs.label("line-breaks");
        }
        let full_text = join_canonical(&full_tokens);
        let min_stmt = statement(case.position, &min_text);
        let full_stmt = statement(case.position, &full_text);

        let pairs = bare_pairs(&case.expr);
        obs.nontrivial = !pairs.is_empty();
        if case.tight {
            obs.label("tight");
        }
        if has_single_in(&case.expr) {
            obs.label("in-single");
        }
        for (p, c, _) in &pairs {
            if *p == "neg" || *c == "neg" {
                obs.label("neg-adjacent");
            }
            if *c == "index" || *c == "cast" || *c == "qualified" {
                obs.label("postfix-adjacent");
            }
        }
        let first_pair = pairs.first().map(|(p, c, s)| format!("{}>{}@{}", p, c, s)).unwrap_or_else(|| "none".to_string());

        let full = match parse_debug(&full_stmt) {
            Ok(d) => d,
            Err(e) => {
                let kind = if has_single_in(&case.expr) { "in-single".to_string() } else { class(&case.expr).to_string() };
                return Err(Failure::new(
                    format!("full-form-{}: {}", if e.starts_with("panic") { "panic" } else { "rejected" }, kind),
                    format!("fully parenthesised text does not parse: `{}`: {}", full_stmt, e),
                ));
            }
        };
        match parse_debug(&min_stmt) {
            Ok(min) => {
                if min != full {
                    return Err(Failure::new(
                        format!("grouping: {}", first_pair),
                        format!("`{}` parses differently from `{}`\n  minimal: {}\n  full:    {}", min_stmt, full_stmt, min, full),
                    ));
                }
            }
            Err(e) => {
                return Err(Failure::new(
                    format!("minimal-{}: {}", if e.starts_with("panic") { "panic" } else { "rejected" }, first_pair),
                    format!("`{}` is not accepted although `{}` is: {}", min_stmt, full_stmt, e),
                ));
            }
        }
        Ok(())
    }
}
