//! C16 — value equality, ordering and hashing agree and form a total order (laws observed through queries).

use std::cmp::Ordering;

use serde::{Deserialize, Serialize};

use crate::exec::*;
use crate::run::{Ctx, Failure, Obs, Property, Tier};
use crate::sql::quote;
use crate::tape::Tape;
use crate::value::*;

#[derive(Clone, Debug, Serialize, Deserialize)]
pub struct Case {
    /// column type of a, b, c ("INT", "REAL", "TEXT", "TIMESTAMP", "INTERVAL"); "MIXED" = a INT, b REAL (c unused)
    pub ty: String,
    /// field texts as they appear in the input line
    pub a: String,
    pub b: String,
    pub c: String,
    /// MIXED only: a second REAL (transitivity through an INT between two REALs)
    #[serde(default)]
    pub d: String,
}

pub struct C16;

const INT_POOL: [&str; 10] = ["0", "1", "-1", "9223372036854775807", "-9223372036854775808", "9223372036854775806", "9007199254740992", "9007199254740993", "42", "-42"];
const REAL_POOL: [&str; 21] = ["0.3", "0.30000000000000004", "0.29999999999999993", "0.0", "-0.0", "1.5", "-1.5", "inf", "-inf", "NaN", "5e-324", "1e308", "-1e308", "2.0", "9007199254740993.0", "0.1", "42.0", "-NaN", "-9223372036854775808.0", "9223372036854775808.0", "-1.0"];
const TEXT_POOL: [&str; 12] = ["", "a", "ab", "b", "B", "é", "z", "😀", "a ", "10", "9", "A"];
const TS_POOL: [&str; 6] = ["2021-03-04 05:06:07", "2021-03-04 05:06:08", "1999-12-31 23:59:59", "2021-03-04 05:06:06", "2038-01-19 03:14:08", "1970-01-01 00:00:00"];
/// instants with microseconds (multi-group TIMESTAMP column with the MICROSECONDS modifier)
const TSUS_POOL: [&str; 8] = ["2021-03-04 05:06:07.000100", "2021-03-04 05:06:07.000200", "2021-03-04 05:06:07.000999", "2021-03-04 05:06:07.001000", "2021-03-04 05:06:07.000000", "2021-03-04 05:06:08.000000", "1999-12-31 23:59:59.999999", "2021-03-04 05:06:07.001001"];
const ARR_POOL: [&str; 10] = ["[1]", "[1, 1]", "[1, 1, 5]", "[2]", "[]", "[1, 2]", "[-1]", "[9223372036854775807]", "[1, 1, 5, 0]", "[1,1]"];
const IV_POOL: [&str; 7] = ["0:00:00", "0:00:01", "1:00:00", "0:60:00", "25:00:00", "0:59:60", "0:00:60"];

fn pool(ty: &str) -> &'static [&'static str] {
    match ty {
        "INT" => &INT_POOL,
        "REAL" => &REAL_POOL,
        "TEXT" => &TEXT_POOL,
        "TIMESTAMP" => &TS_POOL,
        "INT[]" => &ARR_POOL,
        "TIMESTAMP_US" => &TSUS_POOL,
        _ => &IV_POOL,
    }
}

const TYPES: [&str; 7] = ["INT", "REAL", "TEXT", "TIMESTAMP", "INTERVAL", "INT[]", "TIMESTAMP_US"];

fn parse_value(ty: &str, text: &str) -> Option<V> {
    match ty {
        "INT" => text.parse::<i64>().ok().map(V::Int),
        "REAL" => text.parse::<f64>().ok().map(V::Real),
        "TEXT" => Some(V::Text(text.to_string())),
        "TIMESTAMP" => crate::eval::parse_timestamp(text).map(V::Ts),
        "INTERVAL" => crate::eval::parse_interval(text).map(V::Iv),
        "TIMESTAMP_US" => {
            let (whole, frac) = text.split_once('.')?;
            let micros: i64 = frac.parse().ok()?;
            crate::eval::parse_timestamp(whole).map(|t| V::Ts(t + micros))
        }
        "INT[]" => match parse_json(text) {
            Ok(J::Arr(items)) => items.iter().map(|i| if let J::Num(n) = i { n.parse::<i64>().ok().map(V::Int) } else { None }).collect::<Option<Vec<V>>>().map(V::Array),
            _ => None,
        },
        _ => None,
    }
}

fn special(ty: &str, text: &str) -> bool {
    match ty {
        "INT" => text.len() > 10,
        "REAL" => matches!(text, "0.0" | "-0.0" | "inf" | "-inf" | "NaN" | "-NaN" | "5e-324" | "1e308" | "-1e308" | "-9223372036854775808.0" | "9223372036854775808.0"),
        "TEXT" => text.is_empty() || !text.is_ascii(),
        "INT[]" => text == "[]" || text.contains(','),
        "TIMESTAMP_US" => !text.ends_with(".000000"),
        _ => matches!(text, "0:60:00" | "0:59:60" | "0:00:60" | "1970-01-01 00:00:00"),
    }
}

fn bool_of(obj: &J, key: &str) -> Result<bool, String> {
    match obj.get(key) {
        Some(J::Bool(b)) => Ok(*b),
        other => Err(format!("{} is {:?}", key, other)),
    }
}

fn render(j: &J) -> String {
    match j {
        J::Null => "null".into(),
        J::Bool(b) => b.to_string(),
        J::Num(n) => n.clone(),
        J::Str(s) => format!("{:?}", s),
        other => format!("{:?}", other),
    }
}

impl Property for C16 {
    type Case = Case;

    fn id(&self) -> &'static str {
        "C16"
    }

    fn rule(&self) -> String {
        "triples (a, b, c) of one type from per-type pools containing every special value (INT: extremes, 2^53 and 2^53+1; REAL: +-0.0, +-inf, NaN, subnormal, 1e308; TEXT: empty, prefix pairs, case pairs, non-BMP; \
         TIMESTAMP / INTERVAL: different spellings of equal instants), plus INT x REAL pairs (comparison laws, and GROUP BY / DISTINCT over a key that is the INT on some rows and the REAL on others, and a join of an INT column with a REAL column). The laws are observed through queries on rows carrying these values: trichotomy of a<b / a=b / a>b, consistency of <=, >=, !=, \
         antisymmetry (b?a mirrored), reflexivity, transitivity over (a,b,c); GROUP BY (rows share a group iff `=`, groups ascending by `<`), DISTINCT, COUNT(DISTINCT), MIN/MAX, PERCENTILE(.,0/1), JOIN and array_unique must \
         all agree with the same `=` / `<`; numbers, text and instants additionally against the reference order. Any total order is accepted for NaN. Bounded-exhaustive: all pairs (quick) / all triples (thorough) of every pool. \
         Non-trivial: a triple with >= 1 special value and >= 2 values that compare equal; distinct by case."
            .to_string()
    }

    fn assumptions(&self) -> Vec<String> {
        vec!["values reach the engine through a regex table whose fields are parsed by the declared column type (so NaN, inf, -0.0 can be fed as text)".to_string(), "TZ=UTC".to_string()]
    }

    fn cases(&self, tier: Tier) -> u64 {
        match tier {
            Tier::Quick => 24_000,
            Tier::Thorough => 100_000,
        }
    }

    fn tape_len(&self) -> usize {
        16
    }

    fn generate(&self, t: &mut Tape, ctx: &Ctx) -> Case {
        if t.chance(1, 6) {
            return Case { ty: "MIXED".into(), a: t.pick(&INT_POOL).to_string(), b: t.pick(&REAL_POOL).to_string(), c: t.pick(&INT_POOL).to_string(), d: t.pick(&REAL_POOL).to_string() };
        }
        let ty = *t.pick(&TYPES);
        let p = pool(ty);
        let pick = |t: &mut Tape| {
            let mut v = *t.pick(p);
            if ctx.excluded("c16_nan") && v == "NaN" {
                v = "1.5";
            }
            v.to_string()
        };
        let a = pick(t);
        let b = if t.chance(1, 3) { a.clone() } else { pick(t) };
        let c = if t.chance(1, 3) { b.clone() } else { pick(t) };
        Case { ty: ty.to_string(), a, b, c, d: String::new() }
    }

    fn enum_count(&self, tier: Tier, _ctx: &Ctx) -> u64 {
        let mut n = 0u64;
        for ty in TYPES {
            let k = pool(ty).len() as u64;
            n += if tier == Tier::Quick { k * k } else { k * k * k };
        }
        n + (INT_POOL.len() * REAL_POOL.len() * INT_POOL.len()) as u64
    }

    fn enum_case(&self, index: u64, tier: Tier, _ctx: &Ctx) -> Option<Case> {
        let mut rest = index;
        for ty in TYPES {
            let p = pool(ty);
            let k = p.len() as u64;
            let size = if tier == Tier::Quick { k * k } else { k * k * k };
            if rest < size {
                let a = p[(rest % k) as usize];
                let b = p[((rest / k) % k) as usize];
                let c = if tier == Tier::Quick { a } else { p[(rest / (k * k)) as usize] };
                return Some(Case { ty: ty.to_string(), a: a.to_string(), b: b.to_string(), c: c.to_string(), d: String::new() });
            }
            rest -= size;
        }
        let k = INT_POOL.len() as u64;
        let r = REAL_POOL.len() as u64;
        Some(Case { ty: "MIXED".into(), a: INT_POOL[(rest % k) as usize].to_string(), b: REAL_POOL[((rest / k) % r) as usize].to_string(), c: INT_POOL[((rest / (k * r)) % k) as usize].to_string(), d: REAL_POOL[((rest / k + rest / (k * r)) % r) as usize].to_string() })
    }

    fn enum_description(&self) -> Option<String> {
        Some("all ordered pairs (quick) / all ordered triples (thorough) of each per-type special-value pool, and all INT x REAL pool pairs".to_string())
    }

    fn check(&self, case: &Case, ctx: &Ctx, obs: &mut Obs) -> Result<(), Failure> {
        let panic_fail = |m: String| Failure::new(format!("panic: {}", crate::run::panic_class(&m)), format!("panicked: {}\n  case {:?}", m, case));
        let one = |defs: &str, q: &str, lines: &[String]| -> Result<RunOut, Failure> {
            match run_query(ctx, defs, q, &[lines_to_bytes(lines)]) {
                Ok(o) => Ok(o),
                Err(e) if e.starts_with("rejected") => Err(Failure::new("query-rejected", format!("`{}` / `{}`: {}", defs, q, e))),
                Err(e) => Err(panic_fail(e)),
            }
        };
        let first_obj = |out: &RunOut, q: &str| -> Result<J, Failure> {
            if let Err(e) = &out.result {
                return Err(Failure::new(format!("query-error: {}", case.ty), format!("`{}` failed: {}\n  case {:?}", q, e, case)));
            }
            match out.records().first().map(|r| parse_json(r)) {
                Some(Ok(j)) => Ok(j),
                other => Err(Failure::new("undecodable-output", format!("`{}` gave {:?} / {:?}", q, out.records(), other))),
            }
        };

        if case.ty == "MIXED" {
            obs.label("int-x-real");
            let defs = "CREATE TABLE t(line = '^i=([^;]*);r=([^;]*);k=([^;]*);', line[1] => i INT, line[2] => r REAL, line[3] => k INT);";
            let q = "SELECT (i < r) AS lt, (i = r) AS eq, (i > r) AS gt, (r < i) AS rlt, (r = i) AS req, (r > i) AS rgt, (i <= r) AS le, (i >= r) AS ge, (i != r) AS ne, \
                     (r = k) AS eq_rk, (i = k) AS eq_ik, (r <= k) AS le_rk, (i <= k) AS le_ik, (r < k) AS lt_rk, (i < k) AS lt_ik FROM t";
            let third = if case.c.is_empty() { case.a.clone() } else { case.c.clone() };
            let out = one(defs, q, &[format!("i={};r={};k={};", case.a, case.b, third)])?;
            let f = first_obj(&out, q)?;
            let g = |k: &str| bool_of(&f, k).map_err(|e| Failure::new("undecodable-output", e));
            let (lt, eq, gt) = (g("lt")?, g("eq")?, g("gt")?);
            let n = [lt, eq, gt].iter().filter(|x| **x).count();
            obs.nontrivial = true;
            let ctxt = format!("INT {} vs REAL {}: lt={} eq={} gt={} (reverse: lt={} eq={} gt={})", case.a, case.b, lt, eq, gt, g("rlt")?, g("req")?, g("rgt")?);
            if n != 1 {
                return Err(Failure::new("mixed: trichotomy", ctxt));
            }
            if g("rlt")? != gt || g("rgt")? != lt || g("req")? != eq {
                return Err(Failure::new("mixed: antisymmetry", ctxt));
            }
            if g("le")? != (lt || eq) || g("ge")? != (gt || eq) || g("ne")? == eq {
                return Err(Failure::new("mixed: derived-operators", ctxt));
            }
            // transitivity through the REAL in the middle: i ? r ? k
            let tctx = format!("INT {} , REAL {} , INT {}: i=r {} r=k {} i=k {} | i<=r {} r<=k {} i<=k {} | i<r {} r<k {} i<k {}", case.a, case.b, third, eq, g("eq_rk")?, g("eq_ik")?, g("le")?, g("le_rk")?, g("le_ik")?, lt, g("lt_rk")?, g("lt_ik")?);
            if eq && g("eq_rk")? && !g("eq_ik")? {
                return Err(Failure::new("mixed: transitivity-eq", tctx));
            }
            if g("le")? && g("le_rk")? && !g("le_ik")? {
                return Err(Failure::new("mixed: transitivity-le", tctx));
            }
            if lt && g("lt_rk")? && !g("lt_ik")? {
                return Err(Failure::new("mixed: transitivity-lt", tctx));
            }
            // consumers: an INT and a REAL of equal value are one group / one DISTINCT row / join partners
            {
                let mdefs = "CREATE TABLE m(line = '^s=([^;]*);i=([^;]*);r=([^;]*);', line[1] => s INT, line[2] => i INT, line[3] => r REAL); \
                             CREATE TABLE ti(line = '^k=([^;]*);', line[1] => k INT); CREATE TABLE ur(line = '^k=([^;]*);', line[1] => k REAL);";
                let key = "CASE WHEN s = 0 THEN i ELSE r END";
                // the key sequence is i, r, i
                let rows = vec![format!("s=0;i={};r={};", case.a, case.b), format!("s=1;i={};r={};", case.a, case.b), format!("s=0;i={};r={};", case.a, case.b)];
                let expect = if eq { 1 } else { 2 };
                let gq = format!("SELECT COUNT(*) AS n FROM m GROUP BY {}", key);
                let go = one(mdefs, &gq, &rows)?;
                if go.result.is_err() {
                    return Err(Failure::new("mixed: group-by-error", format!("{} | `{}`: {:?}", ctxt, gq, go.result)));
                }
                if go.records().len() != expect {
                    return Err(Failure::new("mixed: group-by-vs-equality", format!("{} | GROUP BY over (i, r, i) gives {:?}", ctxt, go.records())));
                }
                if !eq {
                    // the INT occurs twice: its group comes first iff i < r
                    let first_is_int = go.records().first().map(|r| r.contains("\"n\":2")).unwrap_or(false);
                    if first_is_int != lt {
                        return Err(Failure::new("mixed: group-order-vs-less-than", format!("{} | groups in order {:?}", ctxt, go.records())));
                    }
                }
                let dq = format!("SELECT DISTINCT {} AS k FROM m", key);
                let d = one(mdefs, &dq, &rows)?;
                if d.records().len() != expect {
                    return Err(Failure::new("mixed: distinct-vs-equality", format!("{} | DISTINCT over (i, r, i) prints {:?}", ctxt, d.records())));
                }
                let jpath = ctx.file("c16-mixed-joined.txt");
                write_file(&jpath, format!("k={};\n", case.b).as_bytes());
                let jq = format!("SELECT ti.k FROM ti INNER JOIN ur::{} ON ti.k = ur.k", quote(&jpath.to_string_lossy()));
                let j = one(mdefs, &jq, &[format!("k={};", case.a)])?;
                if j.result.is_err() {
                    return Err(Failure::new("mixed: join-error", format!("{} | {:?}", ctxt, j.result)));
                }
                if (j.records().len() == 1) != eq {
                    return Err(Failure::new("mixed: join-vs-equality", format!("{} | joining INT {} with REAL {} gives {} row(s)", ctxt, case.a, case.b, j.records().len())));
                }
                obs.inner += 3;
            }
            // transitivity through the INT between two REALs (and the other two arrangements)
            if !case.d.is_empty() {
                let tdefs = "CREATE TABLE w(line = '^i=([^;]*);r=([^;]*);q=([^;]*);', line[1] => i INT, line[2] => r REAL, line[3] => q REAL);";
                let tq = "SELECT (r < i) AS r_i, (i < r) AS i_r, (i < q) AS i_q, (q < i) AS q_i, (r < q) AS r_q, (q < r) AS q_r FROM w";
                let to = one(tdefs, tq, &[format!("i={};r={};q={};", case.a, case.b, case.d)])?;
                let tf = first_obj(&to, tq)?;
                let h = |k: &str| bool_of(&tf, k).map_err(|e| Failure::new("undecodable-output", e));
                let (r_i, i_r, i_q, q_i, r_q, q_r) = (h("r_i")?, h("i_r")?, h("i_q")?, h("q_i")?, h("r_q")?, h("q_r")?);
                let chains = [(r_i, i_q, r_q, "r < i < q"), (q_i, i_r, q_r, "q < i < r"), (i_r, r_q, i_q, "i < r < q"), (i_q, q_r, i_r, "i < q < r"), (r_q, q_i, r_i, "r < q < i"), (q_r, r_i, q_i, "q < r < i")];
                for (x, y, z, name) in chains {
                    if x && y && !z {
                        return Err(Failure::new(
                            "mixed: transitivity through an INT and two REALs",
                            format!("INT i = {}, REAL r = {}, REAL q = {}: {} holds link by link but not end to end", case.a, case.b, case.d, name),
                        ));
                    }
                }
            }
            let i: i64 = case.a.parse().unwrap_or(0);
            let r: f64 = case.b.parse().unwrap_or(0.0);
            if !r.is_nan() {
                // numeric value, exact
                if let Some(o) = V::Int(i).ref_cmp(&V::Real(r)) {
                    let want = (o == Ordering::Less, o == Ordering::Equal, o == Ordering::Greater);
                    if (lt, eq, gt) != want {
                        return Err(Failure::new("mixed: not-by-numeric-value", format!("{} but numerically {:?}", ctxt, o)));
                    }
                }
            }
            return Ok(());
        }

        let ty = case.ty.as_str();
        // arrays of different lengths come from JSON documents, everything else from text fields
        let is_array = ty == "INT[]";
        let us_group = "([0-9]+)-([0-9]+)-([0-9]+) ([0-9]+):([0-9]+):([0-9]+)[.]([0-9]+)";
        let us_refs = |from: usize| (from..from + 7).map(|i| format!("line[{}]", i)).collect::<Vec<_>>().join(", ");
        let defs = if ty == "TIMESTAMP_US" {
            format!(
                "CREATE TABLE t(line = '^a={g};b={g};c={g};', {a} => a TIMESTAMP MICROSECONDS, {b} => b TIMESTAMP MICROSECONDS, {c} => c TIMESTAMP MICROSECONDS); \
                 CREATE TABLE t2(line = '^k={g};', {a} => k TIMESTAMP MICROSECONDS); CREATE TABLE u2(line = '^k={g};', {a} => k TIMESTAMP MICROSECONDS);",
                g = us_group,
                a = us_refs(1),
                b = us_refs(8),
                c = us_refs(15)
            )
        } else if is_array {
            "CREATE TABLE t({ .a } => a INT[], { .b } => b INT[], { .c } => c INT[]); CREATE TABLE t2({ .k } => k INT[]); CREATE TABLE u2({ .k } => k INT[]);".to_string()
        } else {
            format!(
                "CREATE TABLE t(line = '^a=([^;]*);b=([^;]*);c=([^;]*);', line[1] => a {ty}, line[2] => b {ty}, line[3] => c {ty}); \
                 CREATE TABLE t2(line = '^k=([^;]*);', line[1] => k {ty}); CREATE TABLE u2(line = '^k=([^;]*);', line[1] => k {ty});",
                ty = ty
            )
        };
        let key_line = |k: &str| if is_array { format!("{{\"k\": {}}}", k) } else { format!("k={};", k) };
        let va = parse_value(ty, &case.a);
        let vb = parse_value(ty, &case.b);
        let vc = parse_value(ty, &case.c);
        let specials = [&case.a, &case.b, &case.c].iter().filter(|x| special(ty, x)).count();
        let is_nan = |v: &Option<V>| matches!(v, Some(V::Real(r)) if r.is_nan());
        if is_nan(&va) || is_nan(&vb) || is_nan(&vc) {
            obs.label("nan");
        }
        if specials > 0 {
            obs.label("special-value");
        }
        let describe = format!("type {} a={:?} b={:?} c={:?}", ty, case.a, case.b, case.c);

        // facts
        let q1_all = "SELECT (a < b) AS lt, (a = b) AS eq, (a > b) AS gt, (a <= b) AS le, (a >= b) AS ge, (a != b) AS ne, (b < a) AS rlt, (b = a) AS req, (b > a) AS rgt, \
                  (b <= c) AS le_bc, (a <= c) AS le_ac, (b = c) AS eq_bc, (a = c) AS eq_ac, (a = a) AS refl, (b < c) AS lt_bc, (a < c) AS lt_ac, \
                  array_length(array_unique(array[a, b])) AS nu, (a IN (b, b)) AS in_b, \
                  array_length(array_unique(array[a, NULL, a])) AS nu_null, array_length(array_unique(array[b, a, NULL, a, b])) AS nu_null2 FROM t";
        // (array_unique over an array of arrays is not part of the documented functions: left out for the array type)
        let q1_owned = if is_array { q1_all.replace("array_length(array_unique(array[a, b])) AS nu", "1 AS nu").replace("array_length(array_unique(array[a, NULL, a])) AS nu_null, array_length(array_unique(array[b, a, NULL, a, b])) AS nu_null2", "1 AS nu_null, 1 AS nu_null2") } else { q1_all.to_string() };
        let q1 = q1_owned.as_str();
        let line = if is_array { format!("{{\"a\": {}, \"b\": {}, \"c\": {}}}", case.a, case.b, case.c) } else { format!("a={};b={};c={};", case.a, case.b, case.c) };
        let out = one(&defs, q1, &[line])?;
        if va.is_none() || vb.is_none() || vc.is_none() {
            // a field is not a literal of the type: NULL column, nothing to observe
            obs.unspecified += 1;
            return Ok(());
        }
        let f = first_obj(&out, q1)?;
        let g = |k: &str| bool_of(&f, k).map_err(|e| Failure::new("undecodable-output", format!("{}: {}", describe, e)));
        let (lt, eq, gt) = (g("lt")?, g("eq")?, g("gt")?);
        let facts = format!("{}: a<b {} a=b {} a>b {} | b<a {} b=a {} b>a {} | a<=b {} a>=b {} a!=b {} | b<=c {} a<=c {} b=c {} a=c {} a=a {}", describe, lt, eq, gt, g("rlt")?, g("req")?, g("rgt")?, g("le")?, g("ge")?, g("ne")?, g("le_bc")?, g("le_ac")?, g("eq_bc")?, g("eq_ac")?, g("refl")?);
        let nan_tag = if is_nan(&va) || is_nan(&vb) || is_nan(&vc) { "+nan" } else { "" };
        let fail = |law: &str, msg: String| Err(Failure::new(format!("{}: {}{}", ty.to_lowercase(), law, nan_tag), msg));
        if [lt, eq, gt].iter().filter(|x| **x).count() != 1 {
            return fail("trichotomy", facts);
        }
        if g("rlt")? != gt || g("rgt")? != lt || g("req")? != eq {
            return fail("antisymmetry", facts);
        }
        if g("le")? != (lt || eq) || g("ge")? != (gt || eq) || g("ne")? == eq {
            return fail("derived-operators", facts);
        }
        if !g("refl")? {
            return fail("reflexivity", facts);
        }
        if g("le")? && g("le_bc")? && !g("le_ac")? {
            return fail("transitivity-le", facts);
        }
        if eq && g("eq_bc")? && !g("eq_ac")? {
            return fail("transitivity-eq", facts);
        }
        if lt && g("lt_bc")? && !g("lt_ac")? {
            return fail("transitivity-lt", facts);
        }
        let equal_pairs = [eq, g("eq_bc")?, g("eq_ac")?].iter().filter(|x| **x).count();
        obs.nontrivial = specials >= 1 && equal_pairs >= 1;
        // reference order for everything but NaN
        if !is_nan(&va) && !is_nan(&vb) {
            if let Some(o) = va.as_ref().unwrap().ref_cmp(vb.as_ref().unwrap()) {
                if (lt, eq, gt) != (o == Ordering::Less, o == Ordering::Equal, o == Ordering::Greater) {
                    return fail("reference-order", format!("{} but by value a {:?} b", facts, o));
                }
            }
        }
        // array_unique and IN agree with `=`
        if !is_array {
        match f.get("nu") {
            Some(J::Num(n)) => {
                if (n == "1") != eq {
                    return fail("array_unique-vs-equality", format!("{} | array_unique(array[a, b]) has {} element(s)", facts, n));
                }
            }
            other => return fail("array_unique-vs-equality", format!("{} | array_length gave {:?}", facts, other)),
        }
        }
        if g("in_b")? != eq {
            return fail("in-vs-equality", facts);
        }
        // a NULL element between equal elements must not keep them apart (NULL itself may or may not be kept)
        for (key, distinct) in [("nu_null", 1u64), ("nu_null2", if eq { 1 } else { 2 })].into_iter().filter(|_| !is_array) {
            match f.get(key) {
                Some(J::Num(n)) if n.parse::<u64>().map(|n| n == distinct || n == distinct + 1).unwrap_or(false) => {}
                other => return fail("array_unique-with-null", format!("{} | {} = {:?}, but the array has {} distinct non-NULL value(s) and one NULL", facts, key, other, distinct)),
            }
        }

        // consumers: GROUP BY, DISTINCT, COUNT(DISTINCT), MIN/MAX, PERCENTILE, JOIN over the key sequence a, b, a
        let keys = vec![key_line(&case.a), key_line(&case.b), key_line(&case.a)];
        let groups_q = "SELECT k, COUNT(*) AS n FROM t2 GROUP BY k";
        let go = one(&defs, groups_q, &keys)?;
        if let Err(e) = &go.result {
            return fail("group-by-error", format!("{} | `{}`: {}", facts, groups_q, e));
        }
        let groups: Vec<J> = go.records().iter().filter_map(|r| parse_json(r).ok()).collect();
        let expect_groups = if eq { 1 } else { 2 };
        if groups.len() != expect_groups {
            return fail("group-by-vs-equality", format!("{} | GROUP BY over a, b, a gives {} group(s): {:?}", facts, groups.len(), go.records()));
        }
        let mut rend_a = String::new();
        let mut rend_b = String::new();
        if !eq {
            // the group with two members is a's
            let n0 = groups[0].get("n").map(render).unwrap_or_default();
            let first_is_a = n0 == "2";
            if first_is_a != lt {
                return fail("group-order-vs-less-than", format!("{} | groups in order {:?}", facts, go.records()));
            }
            rend_a = groups[if first_is_a { 0 } else { 1 }].get("k").map(render).unwrap_or_default();
            rend_b = groups[if first_is_a { 1 } else { 0 }].get("k").map(render).unwrap_or_default();
        }
        let dq = "SELECT DISTINCT k FROM t2";
        let d = one(&defs, dq, &keys)?;
        if d.records().len() != expect_groups {
            return fail("distinct-vs-equality", format!("{} | DISTINCT over a, b, a prints {:?}", facts, d.records()));
        }
        let cq = "SELECT COUNT(DISTINCT k) AS n, MIN(k) AS lo, MAX(k) AS hi, PERCENTILE(k, 0.0) AS p0, PERCENTILE(k, 1.0) AS p1 FROM t2";
        let c = one(&defs, cq, &keys)?;
        let cf = first_obj(&c, cq)?;
        if cf.get("n").map(render).unwrap_or_default() != expect_groups.to_string() {
            return fail("count-distinct-vs-equality", format!("{} | COUNT(DISTINCT) over a, b, a = {:?}", facts, cf.get("n")));
        }
        // MIN / MAX / PERCENTILE do not depend on the order of arrival
        let keys_rev = vec![key_line(&case.b), key_line(&case.a), key_line(&case.a)];
        let c2 = one(&defs, cq, &keys_rev)?;
        let cf2 = first_obj(&c2, cq)?;
        for key in ["lo", "hi", "p0", "p1"] {
            // (equal values may print differently, e.g. 0.0 and -0.0: which representative is shown is not fixed)
            if !eq && cf.get(key).map(render) != cf2.get(key).map(render) {
                return fail("extreme-depends-on-arrival-order", format!("{} | {} over (a, b, a) = {:?}, over (b, a, a) = {:?}", facts, key, cf.get(key).map(render), cf2.get(key).map(render)));
            }
        }
        // (infinities and NaN all print as null: the check needs two different renderings)
        if !eq && rend_a != rend_b {
            let (lo_want, hi_want) = if lt { (&rend_a, &rend_b) } else { (&rend_b, &rend_a) };
            for (key, want, law) in [("lo", lo_want, "min-vs-order"), ("hi", hi_want, "max-vs-order"), ("p0", lo_want, "percentile0-vs-order"), ("p1", hi_want, "percentile1-vs-order")] {
                let got = cf.get(key).map(render).unwrap_or_default();
                if &got != want {
                    return fail(law, format!("{} | {} = {} but the {} value by `<` prints as {}", facts, key, got, if key == "lo" || key == "p0" { "smaller" } else { "greater" }, want));
                }
            }
        }
        // join: a (queried) with b (joined file)
        let jpath = ctx.file("c16-joined.txt");
        write_file(&jpath, format!("{}\n", key_line(&case.b)).as_bytes());
        let jq = format!("SELECT t2.k FROM t2 INNER JOIN u2::{} ON t2.k = u2.k", quote(&jpath.to_string_lossy()));
        let j = one(&defs, &jq, &[key_line(&case.a)])?;
        if j.result.is_err() {
            return fail("join-error", format!("{} | {:?}", facts, j.result));
        }
        if (j.records().len() == 1) != eq {
            return fail("join-vs-equality", format!("{} | joining a with b gives {} row(s)", facts, j.records().len()));
        }
        obs.inner += 6;
        Ok(())
    }
}
