//! C15 — order-insensitive aggregates ignore line order and how the input is split (metamorphic).

use std::cmp::Ordering;

use serde::{Deserialize, Serialize};

use crate::data::*;
use crate::exec::*;
use crate::gen_typed::*;
use crate::props::c04::{gen_group_lines, AggGen};
use crate::props::c06::prepare;
use crate::run::{Ctx, Failure, Obs, Property, Tier};
use crate::sql::*;
use crate::stmt::*;
use crate::tape::Tape;
use crate::value::*;

#[derive(Clone, Debug, Serialize, Deserialize)]
pub struct Case {
    pub table: DataTable,
    /// select list = all GROUP BY keys (aliases k0..) followed by aggregates (aliases a0..)
    pub query: Select,
    pub lines: Vec<String>,
    /// permutations of 0..lines.len()
    pub perms: Vec<Vec<usize>>,
    /// REAL fields may be NaN (regex flavour): only the permutation oracle applies, NaN prints like an absent value
    #[serde(default)]
    pub nan: bool,
}

const RUNNING_SUM_SIGNATURE: &str = "order-dependent overflow error: the running INT sum leaves the 64-bit range although the total does not";

const BIG_INTS: [i64; 10] = [1 << 30, 10, 200_000_001, 200_000_003, 200_000_005, 200_000_007, 3_000_000_000, -(1 << 30), 94_906_267, 1];

pub struct C15;

fn j_cmp(a: &J, b: &J) -> Option<Ordering> {
    match (a, b) {
        (J::Num(x), J::Num(y)) => match (x.parse::<i64>(), y.parse::<i64>()) {
            (Ok(p), Ok(q)) => Some(p.cmp(&q)),
            _ => x.parse::<f64>().ok()?.partial_cmp(&y.parse::<f64>().ok()?),
        },
        (J::Str(x), J::Str(y)) => Some(x.as_bytes().cmp(y.as_bytes())),
        (J::Bool(x), J::Bool(y)) => Some(x.cmp(y)),
        _ => None,
    }
}

fn j_add(a: &J, b: &J) -> Option<J> {
    match (a, b) {
        (J::Null, x) | (x, J::Null) => Some(x.clone()),
        (J::Num(x), J::Num(y)) => match (x.parse::<i64>(), y.parse::<i64>()) {
            (Ok(p), Ok(q)) if J::is_integer_literal(x) && J::is_integer_literal(y) => p.checked_add(q).map(|s| J::Num(s.to_string())),
            _ => {
                let s = x.parse::<f64>().ok()? + y.parse::<f64>().ok()?;
                Some(J::Num(format!("{:?}", s)))
            }
        },
        // intervals print as text: not combined here
        _ => None,
    }
}

fn j_same(a: &J, b: &J) -> bool {
    match (a, b) {
        // integers exactly (neighbours beyond 2^53 are different values), everything else as REAL
        (J::Num(x), J::Num(y)) => match (x.parse::<i64>(), y.parse::<i64>()) {
            (Ok(p), Ok(q)) => p == q,
            _ => x == y || (x.parse::<f64>().ok() == y.parse::<f64>().ok() && x.parse::<f64>().is_ok()),
        },
        _ => a == b,
    }
}

fn table_of(out: &RunOut) -> Result<Vec<Vec<(String, J)>>, String> {
    let mut rows = Vec::new();
    for r in out.records() {
        match parse_json(&r)? {
            J::Obj(items) => rows.push(items),
            other => return Err(format!("record {:?} is {:?}", r, other)),
        }
    }
    Ok(rows)
}

#[derive(Clone, Copy, PartialEq, Debug)]
enum Combine {
    Key,
    Add,
    Min,
    Max,
    And,
    Or,
    Skip,
}

fn combine_rule(e: &E, is_key: bool) -> Combine {
    if is_key {
        return Combine::Key;
    }
    match e {
        E::Agg(name, distinct, _) => match (name.to_ascii_uppercase().as_str(), distinct) {
            ("COUNT", false) => Combine::Add,
            ("SUM", _) => Combine::Add,
            ("MIN", _) => Combine::Min,
            ("MAX", _) => Combine::Max,
            ("BOOL_AND", _) => Combine::And,
            ("BOOL_OR", _) => Combine::Or,
            _ => Combine::Skip,
        },
        _ => Combine::Skip,
    }
}

impl Property for C15 {
    type Case = Case;

    fn id(&self) -> &'static str {
        "C15"
    }

    fn rule(&self) -> String {
        "an aggregate statement over COUNT / COUNT(c) / COUNT(DISTINCT) / SUM / MIN / MAX / AVG / STDDEV / VARIANCE / PERCENTILE / BOOL_AND / BOOL_OR (MIN/MAX also over TEXT / TIMESTAMP) with 0-2 GROUP BY keys, optional \
         WHERE and HAVING x <= 14 lines over small domains (REALs are multiples of 1/4, so sums are exact; NULL possibly first; in a fifth of the regex-flavoured cases REAL fields may be NaN, judged by the permutation oracle only; in a sixth of the cases INT fields take values around 2^30, 2e8 and 3e9; a sixth of the grouped statements have LIMIT 1-3, permutation oracle only) x 3 permutations of the lines x EVERY cut of the input into two parts. \
         Oracle (metamorphic): the printed table is identical for every permutation; for every cut (statements without HAVING) the set of groups of the whole = union of the parts' groups and per group \
         COUNT/SUM add, MIN/MAX and BOOL_AND/BOOL_OR combine (absent = identity). Non-trivial: >= 2 groups and a permutation that changes the first row of some group; distinct by case."
            .to_string()
    }

    fn assumptions(&self) -> Vec<String> {
        vec!["REAL inputs are dyadic rationals with exactly representable sums (the property's precondition)".to_string()]
    }

    fn cases(&self, tier: Tier) -> u64 {
        match tier {
            Tier::Quick => 90_000,
            Tier::Thorough => 1_000_000,
        }
    }

    fn shrink_iters(&self) -> u32 {
        3000
    }

    fn tape_len(&self) -> usize {
        1600
    }

    fn label_floors(&self) -> Vec<(&'static str, f64)> {
        vec![("group-by", 0.4), ("cuts-checked", 0.3)]
    }

    fn generate(&self, t: &mut Tape, ctx: &Ctx) -> Case {
        let table = gen_table(t, "t", "c", false);
        // one case in ten: a wide value domain and up to 40 lines (more than a handful of distinct values per group)
        let wide = t.chance(1, 10);
        let mut lines = if wide { crate::props::c04::gen_wide_lines(t, &table, 40) } else { gen_group_lines(t, &table, 14) };
        let nan = !table.json && table.cols.iter().any(|c| c.1 == Ty::Real) && t.chance(1, 5);
        if nan {
            lines.clear();
            let n = 2 + t.draw(10);
            for _ in 0..n {
                let values: Vec<V> = table
                    .cols
                    .iter()
                    .map(|(_, ty)| {
                        if t.chance(1, 5) {
                            V::Null
                        } else if *ty == Ty::Real && t.chance(1, 3) {
                            V::Real(f64::NAN)
                        } else {
                            crate::props::c04::small_value(t, *ty)
                        }
                    })
                    .collect();
                lines.push(table.line(&values, t));
            }
        }
        // one regex-flavoured case in six: REALs that are mostly zeros of either sign (equal values that print differently)
        let zeros = !nan && !table.json && table.cols.iter().any(|c| c.1 == Ty::Real) && t.chance(1, 6);
        if zeros {
            lines.clear();
            let n = 2 + t.draw(10);
            for _ in 0..n {
                let values: Vec<V> = table
                    .cols
                    .iter()
                    .map(|(_, ty)| {
                        if t.chance(1, 4) {
                            V::Null
                        } else if *ty == Ty::Real {
                            V::Real(*t.pick(&[-0.0, 0.0, -0.0, 0.25, -0.25]))
                        } else {
                            crate::props::c04::small_value(t, *ty)
                        }
                    })
                    .collect();
                lines.push(table.line(&values, t));
            }
        }
        if !nan && !zeros && table.cols.iter().any(|c| c.1 == Ty::Int) && t.chance(1, 6) {
            // INT values whose squares / sums leave the range in which an f64 is exact (an overflow is an error in every order)
            lines.clear();
            let n = 2 + t.draw(8);
            for _ in 0..n {
                let values: Vec<V> = table
                    .cols
                    .iter()
                    .map(|(_, ty)| {
                        if t.chance(1, 6) {
                            V::Null
                        } else if *ty == Ty::Int {
                            if !ctx.excluded("c15_running_sum_overflow") && t.chance(1, 4) {
                                // sums that leave the 64-bit range on the way although the total is back in it
                                V::Int(*t.pick(&[i64::MAX, i64::MAX - 1, i64::MIN + 1, -1, 1, 2]))
                            } else {
                                V::Int(*t.pick(&BIG_INTS))
                            }
                        } else {
                            crate::props::c04::small_value(t, *ty)
                        }
                    })
                    .collect();
                lines.push(table.line(&values, t));
            }
        }
        let mut g = AggGen { table: &table, ctx, excluded: 0 };
        let mut q = Select::simple(Vec::new(), "t");
        let nkeys = t.weighted(&[2, 5, 2]);
        for _ in 0..nkeys {
            let k = g.group_key(t);
            if !q.group_by.contains(&k) {
                q.group_by.push(k);
            }
        }
        for (i, k) in q.group_by.iter().enumerate() {
            q.items.push((k.clone(), Some(format!("k{}", i))));
        }
        let naggs = 1 + t.draw(3);
        for i in 0..naggs {
            q.items.push((g.aggregate(t, false), Some(format!("a{}", i))));
        }
        let int_cols: Vec<String> = table.cols.iter().filter(|c| c.1 == Ty::Int).map(|c| c.0.clone()).collect();
        let bool_only = !q.group_by.is_empty() && !int_cols.is_empty() && t.chance(1, 10);
        if bool_only {
            // only group keys and BOOL_OR / BOOL_AND over comparisons (which always have a value) in the select list; the
            // aggregates HAVING needs are not in it
            q.items.truncate(q.group_by.len());
            let n = 1 + t.draw(2);
            for i in 0..n {
                let cmp = E::bin(*t.pick(&[BinOp::Gt, BinOp::Eq, BinOp::Le]), E::col(t.pick(&int_cols).as_str()), E::Int(t.range(0, 2)));
                q.items.push((E::Agg(if t.chance(1, 2) { "BOOL_OR" } else { "BOOL_AND" }.into(), false, vec![cmp]), Some(format!("a{}", i))));
            }
        } else {
            // an aggregate that always has a value keeps every group visible (known finding F09b is about the others)
            q.items.push((E::Agg("COUNT".into(), false, vec![E::Star]), Some("an".into())));
        }
        if t.chance(1, 4) {
            let scope = Scope { cols: table.cols.clone() };
            let mut tg = TypedGen::new(&scope, GenCfg::plain(), ctx);
            q.filter = Some(tg.gen(t, Ty::Bool, 2));
        }
        if t.chance(1, 5) || bool_only {
            let agg = if bool_only && t.chance(1, 2) { E::Agg("SUM".into(), false, vec![E::col(t.pick(&int_cols).as_str())]) } else { E::Agg("COUNT".into(), false, vec![]) };
            q.having = Some(E::bin(*t.pick(&BinOp::CMP), agg, E::Int(t.range(0, 3))));
        }
        if !q.group_by.is_empty() && t.chance(1, 6) {
            // groups come out in key order, so LIMIT keeps a set of groups that does not depend on the input order
            q.limit = Some(1 + t.draw(3) as u64);
        }
        let n = lines.len();
        let perms = (0..3)
            .map(|k| {
                let mut p: Vec<usize> = (0..n).collect();
                match k {
                    0 => p.reverse(),
                    _ => t.shuffle(&mut p),
                }
                p
            })
            .collect();
        Case { table, query: q, lines, perms, nan }
    }

    fn check(&self, case: &Case, ctx: &Ctx, obs: &mut Obs) -> Result<(), Failure> {
        let p = prepare(ctx, &case.table, None, &case.query, &[], "c15")?;
        let context = format!("query: {}\n  table: {}\n  lines: {:?}", p.text, p.defs, case.lines);
        let panic_fail = |m: String| Failure::new(format!("panic: {}", crate::run::panic_class(&m)), format!("panicked: {}\n  {}", m, context));
        let run = |lines: &[String]| -> Result<RunOut, Failure> {
            let files = scratch_files(ctx, "c15", &[lines_to_bytes(lines)]);
            run_batch(&p.tables, &p.statement, &files, RunOptions::default()).map_err(panic_fail)
        };
        let base = run(&case.lines)?;
        if !case.query.group_by.is_empty() {
            obs.label("group-by");
        }
        let aggs: Vec<String> = case.query.items.iter().filter_map(|(e, _)| if let E::Agg(n, d, _) = e { Some(if *d { format!("{}-distinct", n.to_lowercase()) } else { n.to_lowercase() }) } else { None }).collect();

        // 1. permutations
        for perm in &case.perms {
            if perm.len() != case.lines.len() {
                continue;
            }
            let permuted: Vec<String> = perm.iter().map(|i| case.lines[*i].clone()).collect();
            let out = run(&permuted)?;
            obs.inner += 1;
            if base.result.is_err() && out.result.is_err() {
                obs.label("both-failed");
                continue;
            }
            if out.result.is_err() != base.result.is_err() {
                let e = format!("{:?} / {:?}", base.result, out.result);
                if e.contains("overflow") {
                    return Err(Failure::new(
                        RUNNING_SUM_SIGNATURE,
                        format!("order {:?} gives {:?} {:?}\n  original order gives {:?} {:?}\n  {}", perm, out.records(), out.result, base.records(), base.result, context),
                    ));
                }
            }
            if out.records() != base.records() || out.result.is_err() != base.result.is_err() {
                // which column differs?
                let mut which = "rows".to_string();
                if let (Ok(a), Ok(b)) = (table_of(&base), table_of(&out)) {
                    if a.len() == b.len() {
                        'outer: for (ra, rb) in a.iter().zip(b.iter()) {
                            for (c, ((_, va), (_, vb))) in ra.iter().zip(rb.iter()).enumerate() {
                                if va != vb {
                                    which = match &case.query.items[c].0 {
                                        E::Agg(n, d, _) => if *d { format!("{}-distinct", n.to_lowercase()) } else { n.to_lowercase() },
                                        _ => "key".to_string(),
                                    };
                                    break 'outer;
                                }
                            }
                        }
                    }
                }
                return Err(Failure::new(
                    format!("permutation-changes-result: {}", which),
                    format!("order {:?} prints {:?} {:?}\n  original order prints {:?} {:?}\n  {}", perm, out.records(), out.result, base.records(), base.result, context),
                ));
            }
        }
        if base.result.is_err() {
            obs.unspecified += 1;
            return Ok(());
        }
        let whole = table_of(&base).map_err(|e| Failure::new("undecodable-output", e))?;
        let nkeys = case.query.group_by.len();
        // non-triviality: a permutation changes the first row of some group
        obs.nontrivial = whole.len() >= 2 && case.perms.iter().any(|pm| pm.iter().enumerate().any(|(i, j)| i != *j));

        // 2. every cut
        if case.nan {
            obs.label("nan-values");
        }
        if case.query.limit.is_some() {
            obs.label("limit");
        }
        if case.query.having.is_none() && !case.nan && case.query.limit.is_none() {
            obs.label("cuts-checked");
            let rules: Vec<Combine> = case.query.items.iter().enumerate().map(|(i, (e, _))| combine_rule(e, i < nkeys)).collect();
            for cut in 1..case.lines.len() {
                let a = run(&case.lines[..cut])?;
                let b = run(&case.lines[cut..])?;
                obs.inner += 1;
                if a.result.is_err() || b.result.is_err() {
                    continue;
                }
                let ta = table_of(&a).map_err(|e| Failure::new("undecodable-output", e))?;
                let tb = table_of(&b).map_err(|e| Failure::new("undecodable-output", e))?;
                let key_of = |row: &Vec<(String, J)>| -> Vec<J> { row.iter().take(nkeys).map(|x| x.1.clone()).collect() };
                let same_key = |x: &Vec<J>, y: &Vec<J>| x.len() == y.len() && x.iter().zip(y.iter()).all(|(p, q)| j_same(p, q));
                // union of groups
                let mut keys: Vec<Vec<J>> = Vec::new();
                for row in ta.iter().chain(tb.iter()) {
                    let k = key_of(row);
                    if !keys.iter().any(|o| same_key(o, &k)) {
                        keys.push(k);
                    }
                }
                let wkeys: Vec<Vec<J>> = whole.iter().map(key_of).collect();
                let missing = keys.iter().any(|k| !wkeys.iter().any(|w| same_key(w, k)));
                let extra = wkeys.iter().any(|w| !keys.iter().any(|k| same_key(w, k)));
                if missing || extra || wkeys.len() != keys.len() {
                    return Err(Failure::new(
                        "cut: groups-not-union",
                        format!("cut after line {}: whole has groups {:?}, parts have {:?}\n  {}", cut, wkeys, keys, context),
                    ));
                }
                for wrow in &whole {
                    let k = key_of(wrow);
                    let ra = ta.iter().find(|r| same_key(&key_of(r), &k));
                    let rb = tb.iter().find(|r| same_key(&key_of(r), &k));
                    for (c, rule) in rules.iter().enumerate() {
                        let va = ra.map(|r| r[c].1.clone());
                        let vb = rb.map(|r| r[c].1.clone());
                        let is_count = matches!(&case.query.items[c].0, E::Agg(n, _, _) if n.eq_ignore_ascii_case("COUNT"));
                        let ident = if is_count { J::Num("0".into()) } else { J::Null };
                        let va = va.unwrap_or(ident.clone());
                        let vb = vb.unwrap_or(ident);
                        let expected: Option<J> = match rule {
                            Combine::Key | Combine::Skip => None,
                            Combine::Add => j_add(&va, &vb),
                            Combine::Min | Combine::Max => match (&va, &vb) {
                                (J::Null, x) | (x, J::Null) => Some(x.clone()),
                                (x, y) => j_cmp(x, y).map(|o| if (o == Ordering::Greater) == (*rule == Combine::Max) { x.clone() } else { y.clone() }),
                            },
                            Combine::And | Combine::Or => match (&va, &vb) {
                                (J::Null, x) | (x, J::Null) => Some(x.clone()),
                                (J::Bool(x), J::Bool(y)) => Some(J::Bool(if *rule == Combine::And { *x && *y } else { *x || *y })),
                                _ => None,
                            },
                        };
                        if let Some(want) = expected {
                            if !j_same(&want, &wrow[c].1) {
                                return Err(Failure::new(
                                    format!("cut: {} does not combine", aggs.get(c.saturating_sub(nkeys)).cloned().unwrap_or_default()),
                                    format!("cut after line {}: group {:?} column {}: parts give {:?} and {:?}, whole gives {:?}\n  {}", cut, k, wrow[c].0, va, vb, wrow[c].1, context),
                                ));
                            }
                        }
                    }
                }
            }
        }
        Ok(())
    }
}
