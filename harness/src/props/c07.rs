//! C07 — LIMIT n outputs exactly the first n rows of the unlimited result (metamorphic, every n per case).

use serde::{Deserialize, Serialize};

use sqlgrep::execution::execution_engine::{ExecutionConfig, ExecutionEngine};

use crate::data::*;
use crate::exec::*;
use crate::gen_query::*;
use crate::props::c06::prepare;
use crate::run::{Ctx, Failure, Obs, Property, Tier};
use crate::stmt::*;
use crate::tape::Tape;

#[derive(Clone, Debug, Serialize, Deserialize)]
pub struct Case {
    pub table: DataTable,
    pub joined: Option<DataTable>,
    /// statement without LIMIT
    pub query: Select,
    /// the input split over 1..3 files
    pub files: Vec<Vec<String>>,
    pub joined_lines: Vec<String>,
    /// long input: every file's lines are repeated this many times and only the listed LIMIT values (as per-mille of the row count, plus offsets) are tried
    #[serde(default)]
    pub long: Option<(usize, Vec<u64>)>,
    /// index (over all files) of a line replaced by invalid UTF-8: a LIMIT satisfied before it must not report the read error
    #[serde(default)]
    pub bad_line: Option<usize>,
}

pub struct C07;

impl Property for C07 {
    type Case = Case;

    fn id(&self) -> &'static str {
        "C07"
    }

    fn rule(&self) -> String {
        "a statement without LIMIT (plain, DISTINCT, join with fan-out, aggregate +- GROUP BY) x input of <= 16 lines split over 1-3 files, including rows whose projected columns are all NULL (one case in 30: every file repeated to 600-6000 lines in total, about a dozen LIMIT values spread over the row count); \
         for EVERY n in 0..=rows+2, and for 2^31, 2^32, 10^12 and 2^63-1, the statement with LIMIT n is run; in one case in eight a later line is unreadable (invalid UTF-8): a LIMIT satisfied by the lines before it must behave as if the input ended there. Oracle (metamorphic): records(LIMIT n) = first n records of the unlimited run; a non-aggregate statement consumes exactly the lines up to \
         the one that produced its n-th row (0 lines for n = 0, all lines when there are fewer rows; attribution by feeding the unlimited statement line by line through the engine); an aggregate \
         statement consumes everything and keeps the first n groups; the same LIMIT statement driven line by line through the public engine API by three kinds of driver (asking reached_limit() first like FollowFileExecutor, looking only at the flag of each result like python_wrapper.rs, never stopping) gives the first n rows and nothing else. Non-trivial: some 0 < n < rows with >= 2 files or a fan-out line or a NULL-only row; distinct by case."
            .to_string()
    }

    fn assumptions(&self) -> Vec<String> {
        vec!["consumption is read from FileExecutor::statistics().total_lines".to_string()]
    }

    fn cases(&self, tier: Tier) -> u64 {
        match tier {
            Tier::Quick => 60_000,
            Tier::Thorough => 600_000,
        }
    }

    fn shrink_iters(&self) -> u32 {
        3000
    }

    fn tape_len(&self) -> usize {
        900
    }

    fn label_floors(&self) -> Vec<(&'static str, f64)> {
        vec![("multi-file", 0.3), ("fan-out", 0.03), ("null-only-row", 0.05)]
    }

    fn generate(&self, t: &mut Tape, ctx: &Ctx) -> Case {
        let mut opts = QOpts::all();
        opts.limit = false;
        opts.join_share = 3;
        let mut g = gen_query(t, ctx, opts);
        // grouped statements of nothing but keys and PERCENTILEs (values computed only when the table is built; a group all of whose
        // arguments are NULL has no row at all): LIMIT n still keeps the first n rows of the unlimited table
        if !g.query.group_by.is_empty() && g.joined.is_none() && t.chance(1, 4) {
            let numeric: Vec<String> = g.table.cols.iter().filter(|c| matches!(c.1, Ty::Int | Ty::Real)).map(|c| c.0.clone()).collect();
            if !numeric.is_empty() {
                let keys = g.query.group_by.clone();
                g.query.items = keys.iter().enumerate().map(|(i, k)| (k.clone(), Some(format!("k{}", i)))).collect();
                for i in 0..1 + t.draw(2) {
                    let x = crate::sql::E::col(t.pick(&numeric).as_str());
                    g.query.items.push((crate::sql::E::Agg("PERCENTILE".into(), false, vec![x, crate::sql::E::Real(t.pick(&["0.5", "0.0", "0.9"]).to_string())]), Some(format!("ap{}", i))));
                }
                g.query.having = None;
                g.query.distinct = false;
            }
        }
        let lines = crate::props::c04::gen_group_lines(t, &g.table, 16);
        let joined_lines = g.joined.as_ref().map(|j| gen_data(t, j, 8)).unwrap_or_default();
        let nfiles = if ctx.excluded("c07_limit_multi_file") { 1 } else { 1 + t.weighted(&[3, 3, 2]) };
        let mut files: Vec<Vec<String>> = vec![Vec::new(); nfiles];
        // contiguous split
        let mut cuts: Vec<usize> = (0..nfiles - 1).map(|_| t.draw(lines.len() + 1)).collect();
        cuts.sort();
        let mut f = 0;
        for (i, l) in lines.into_iter().enumerate() {
            while f < cuts.len() && cuts[f] <= i {
                f += 1;
            }
            files[f].push(l);
        }
        let total: usize = files.iter().map(|f| f.len()).sum();
        let long = if total >= 3 && t.chance(1, 30) {
            // thousands of rows: 600-6000 lines, eight LIMIT values spread over the row count
            let repeat = (600 + t.draw(5400)) / total + 1;
            let points: Vec<u64> = (0..8).map(|_| t.draw(1001) as u64).collect();
            Some((repeat, points))
        } else {
            None
        };
        let bad_line = if long.is_none() && total >= 2 && t.chance(1, 8) { Some(1 + t.draw(total - 1)) } else { None };
        Case { table: g.table, joined: g.joined, query: g.query, files, joined_lines, long, bad_line }
    }

    fn check(&self, case: &Case, ctx: &Ctx, obs: &mut Obs) -> Result<(), Failure> {
        let unlimited = prepare(ctx, &case.table, case.joined.as_ref(), &case.query, &case.joined_lines, "c07")?;
        let expanded: Vec<Vec<String>> = match &case.long {
            Some((repeat, _)) => {
                obs.label("long-input");
                case.files.iter().map(|f| (0..*repeat).flat_map(|_| f.iter().cloned()).collect()).collect()
            }
            None => case.files.clone(),
        };
        // an unreadable line: the files as the LIMIT statements see them contain it, the unlimited reference run gets
        // the readable lines in front of it (everything a satisfied LIMIT may touch)
        let bad = case.bad_line.filter(|b| *b < expanded.iter().map(|f| f.len()).sum::<usize>());
        let mut contents: Vec<Vec<u8>> = Vec::new();
        let mut readable: Vec<Vec<String>> = Vec::new();
        let mut index = 0usize;
        for f in &expanded {
            let mut bytes = Vec::new();
            let mut keep = Vec::new();
            for l in f {
                if bad == Some(index) {
                    bytes.extend_from_slice(b"c0=1;\xff\xfe;\n");
                } else {
                    bytes.extend_from_slice(l.as_bytes());
                    bytes.push(b'\n');
                    if bad.map(|b| index < b).unwrap_or(true) {
                        keep.push(l.clone());
                    }
                }
                index += 1;
            }
            contents.push(bytes);
            readable.push(keep);
        }
        if bad.is_some() {
            obs.label("unreadable-line-after-limit");
        }
        let limited_files = scratch_files(ctx, "c07", &contents);
        let files = if bad.is_some() { scratch_files(ctx, "c07r", &readable.iter().map(|f| lines_to_bytes(f)).collect::<Vec<_>>()) } else { limited_files.clone() };
        let all_lines: Vec<&String> = readable.iter().flatten().collect();
        let context = format!("query (without LIMIT): {}\n  tables: {}\n  files: {:?} (each repeated {} time(s))\n  joined lines: {:?}", unlimited.text, unlimited.defs, case.files, case.long.as_ref().map(|l| l.0).unwrap_or(1), case.joined_lines);
        let panic_fail = |p: String| Failure::new(format!("panic: {}", crate::run::panic_class(&p)), format!("panicked: {}\n  {}", p, context));

        let u = run_batch(&unlimited.tables, &unlimited.statement, &files, RunOptions::default()).map_err(panic_fail)?;
        if u.result.is_err() {
            // the unlimited statement fails on this data: nothing to compare (counted)
            obs.unspecified += 1;
            obs.label("unlimited-errors");
            return Ok(());
        }
        let urec = u.records();
        let aggregate = unlimited.statement.is_aggregate();

        // attribution: rows produced per input line by the unlimited statement
        let mut rows_per_line: Vec<usize> = Vec::new();
        // rows of the unlimited statement on the per-line (follow) path, as Debug text
        let mut follow_rows: Vec<String> = Vec::new();
        if !aggregate {
            let mut engine = match crate::run::catch(|| ExecutionEngine::with_executed_joined_table(&unlimited.tables, &unlimited.statement)) {
                Ok(Ok(e)) => e,
                Ok(Err(e)) => return Err(Failure::new("engine-setup-error", format!("{}\n  {}", e, context))),
                Err(p) => return Err(panic_fail(p)),
            };
            for line in &all_lines {
                match engine_line(&mut engine, line, &ExecutionConfig::default()).map_err(panic_fail)? {
                    Ok(lo) => {
                        let data = lo.result.map(|r| r.data).unwrap_or_default();
                        rows_per_line.push(data.len());
                        follow_rows.extend(data.iter().map(|r| format!("{:?}", r.columns)));
                    }
                    Err(e) => return Err(Failure::new("engine-error", format!("{}\n  {}", e, context))),
                }
            }
            if rows_per_line.iter().sum::<usize>() != urec.len() {
                return Err(Failure::new("attribution-mismatch", format!("per-line engine gives {} rows, batch gives {}\n  {}", rows_per_line.iter().sum::<usize>(), urec.len(), context)));
            }
        }
        let fan_out = rows_per_line.iter().any(|n| *n >= 2);
        let null_only = urec.iter().any(|r| {
            let body = r.trim_start_matches('{').trim_end_matches('}');
            !body.is_empty() && body.split(',').all(|kv| kv.trim_end().ends_with(":null"))
        });
        let multi = case.files.len() >= 2 && case.files.iter().filter(|f| !f.is_empty()).count() >= 2;
        if multi {
            obs.label("multi-file");
        }
        if fan_out {
            obs.label("fan-out");
        }
        if null_only {
            obs.label("null-only-row");
        }
        if aggregate {
            obs.label("aggregate");
        }
        if case.query.distinct {
            obs.label("distinct");
        }
        obs.nontrivial = urec.len() >= 2 && (multi || fan_out || null_only);

        let kind = if aggregate { "aggregate" } else if fan_out { "fan-out" } else if null_only { "null-only-row" } else if multi { "multi-file" } else { "plain" };
        let limits: Vec<u64> = match &case.long {
            Some((_, points)) => {
                let rows = urec.len() as u64;
                let mut v: Vec<u64> = points.iter().map(|p| rows * p / 1000).collect();
                v.extend([rows.saturating_sub(1), rows, rows + 1, 1025.min(rows), 4097.min(rows)]);
                v.sort();
                v.dedup();
                v
            }
            None => {
                let mut v: Vec<u64> = (0..=(urec.len() as u64 + 2)).collect();
                // far beyond the row count: same as no LIMIT
                v.extend([1u64 << 31, 1u64 << 32, 1_000_000_000_000, i64::MAX as u64]);
                v
            }
        };
        for n in limits {
            if n == 0 && ctx.excluded("c07_limit_zero") {
                obs.excluded += 1;
                continue;
            }
            let mut q = case.query.clone();
            q.limit = Some(n);
            let limited = prepare(ctx, &case.table, case.joined.as_ref(), &q, &case.joined_lines, "c07")?;
            if bad.is_some() && (aggregate || n == 0 || n > urec.len() as u64) {
                // an aggregate reads everything, and so does a LIMIT that is never satisfied: both meet the unreadable line
                continue;
            }
            let l = run_batch(&limited.tables, &limited.statement, &limited_files, RunOptions::default()).map_err(panic_fail)?;
            obs.inner += 1;
            let want: Vec<String> = urec.iter().take(n as usize).cloned().collect();
            let class = if n == 0 { "n=0".to_string() } else { kind.to_string() };
            if l.result.is_err() {
                return Err(Failure::new(format!("limited-run-errors: {}", class), format!("LIMIT {} fails ({:?}) although the unlimited statement succeeds\n  {}", n, l.result, context)));
            }
            if l.records() != want {
                return Err(Failure::new(
                    format!("not-a-prefix: {}", class),
                    format!("LIMIT {} printed {:?}\n  the unlimited statement prints {:?}\n  {}", n, l.records(), urec, context),
                ));
            }
            // consumption
            let expected_consumed: u64 = if aggregate {
                all_lines.len() as u64
            } else if n == 0 {
                0
            } else if (urec.len() as u64) < n {
                all_lines.len() as u64
            } else {
                let mut acc = 0usize;
                let mut idx = 0u64;
                for (i, r) in rows_per_line.iter().enumerate() {
                    acc += r;
                    if acc as u64 >= n {
                        idx = i as u64 + 1;
                        break;
                    }
                }
                idx
            };
            // a run that prints nothing (statistics only) consumes the same lines
            if !aggregate && bad.is_none() {
                let silent = run_batch(&limited.tables, &limited.statement, &limited_files, RunOptions { print_result: false, ..RunOptions::default() }).map_err(panic_fail)?;
                if silent.total_lines != l.total_lines || silent.result.is_err() != l.result.is_err() {
                    return Err(Failure::new(
                        format!("consumption: silent run differs: {}", class),
                        format!("LIMIT {}: the run that prints consumed {} lines, the same run with print_result = false consumed {}\n  {}", n, l.total_lines, silent.total_lines, context),
                    ));
                }
            }
            if l.total_lines != expected_consumed {
                return Err(Failure::new(
                    format!("consumption: {}", class),
                    format!("LIMIT {} consumed {} input lines, expected {}\n  {}", n, l.total_lines, expected_consumed, context),
                ));
            }
            // the per-line (follow) path: feed lines until the engine reports the limit, as FollowFileExecutor does
            if !aggregate {
                let mut engine = match crate::run::catch(|| ExecutionEngine::with_executed_joined_table(&limited.tables, &limited.statement)) {
                    Ok(Ok(e)) => e,
                    _ => continue,
                };
                let mut got: Vec<String> = Vec::new();
                let mut fed = 0u64;
                if !engine.reached_limit() {
                    for line in &all_lines {
                        fed += 1;
                        match engine_line(&mut engine, line, &ExecutionConfig::default()).map_err(panic_fail)? {
                            Ok(lo) => {
                                if let Some(r) = &lo.result {
                                    got.extend(r.data.iter().map(|r| format!("{:?}", r.columns)));
                                }
                                if lo.reached_limit {
                                    break;
                                }
                            }
                            Err(_) => break,
                        }
                    }
                }
                let want: Vec<String> = follow_rows.iter().take(n as usize).cloned().collect();
                if got != want {
                    return Err(Failure::new(format!("follow-path-not-a-prefix: {}", class), format!("LIMIT {} on the per-line path gives {:?}, the first rows without LIMIT are {:?}\n  {}", n, got, want, context)));
                }
                if fed != expected_consumed {
                    return Err(Failure::new(format!("follow-path-consumption: {}", class), format!("LIMIT {} on the per-line path took {} lines, expected {}\n  {}", n, fed, expected_consumed, context)));
                }
                // two other drivers of the same public API: one that only looks at the flag in each line's result (what
                // python_wrapper.rs does: it never asks reached_limit() first), and one that keeps feeding lines regardless -
                // whoever drives, LIMIT n gives the first n rows and nothing else
                for stop_at_flag in [true, false] {
                    let mut engine = match crate::run::catch(|| ExecutionEngine::with_executed_joined_table(&limited.tables, &limited.statement)) {
                        Ok(Ok(e)) => e,
                        _ => continue,
                    };
                    let mut got: Vec<String> = Vec::new();
                    for line in &all_lines {
                        match engine_line(&mut engine, line, &ExecutionConfig::default()).map_err(panic_fail)? {
                            Ok(lo) => {
                                if let Some(r) = &lo.result {
                                    got.extend(r.data.iter().map(|r| format!("{:?}", r.columns)));
                                }
                                if lo.reached_limit && stop_at_flag {
                                    break;
                                }
                            }
                            Err(_) => break,
                        }
                    }
                    if got != want {
                        return Err(Failure::new(
                            format!("line-by-line-driver-not-a-prefix: {}", class),
                            format!("LIMIT {} driven line by line ({}) gives {:?}, the first rows without LIMIT are {:?}\n  {}", n, if stop_at_flag { "stopping at the reached_limit flag of a result" } else { "never stopping" }, got, want, context),
                        ));
                    }
                }
            }
        }
        Ok(())
    }
}
