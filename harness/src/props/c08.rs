//! C08 — DISTINCT emits each distinct output tuple once, at its first occurrence (metamorphic: DISTINCT(Q) = dedup(Q)).

use serde::{Deserialize, Serialize};

use sqlgrep::execution::execution_engine::{ExecutionConfig, ExecutionEngine};

use crate::data::*;
use crate::exec::*;
use crate::gen_query::*;
use crate::props::c06::{prepare, Prepared};
use crate::run::{Ctx, Failure, Obs, Property, Tier};
use crate::stmt::*;
use crate::tape::Tape;
use crate::value::*;

#[derive(Clone, Debug, Serialize, Deserialize)]
pub struct Case {
    pub table: DataTable,
    /// statement with DISTINCT
    pub query: Select,
    pub lines: Vec<String>,
    /// long-gap mode: `lines`, then this many pairwise distinct filler rows, then `lines` again
    #[serde(default)]
    pub filler: usize,
    /// statements with a JOIN: the joined table and its file
    #[serde(default)]
    pub joined: Option<DataTable>,
    #[serde(default)]
    pub joined_lines: Vec<String>,
    /// a dedicated mode (the other fields are not used then): an aggregate DISTINCT statement whose HAVING clause
    /// can fail (division by a SUM that is still 0), driven line by line by a caller that goes on after an error
    #[serde(default)]
    pub failing_having: Option<FailingHaving>,
}

#[derive(Clone, Debug, Serialize, Deserialize)]
pub struct FailingHaving {
    /// which select list (index into FH_SELECT)
    pub select: u8,
    pub threshold: i64,
    /// (group key, a, b): line `k=<key> a=<a> b=<b>`
    pub rows: Vec<(u8, i64, i64)>,
}

const FH_SELECT: [&str; 5] = ["k, SUM(a)", "SUM(a)", "COUNT(*)", "SUM(a), SUM(b)", "k, SUM(a), COUNT(*)"];
const FH_DEFS: &str = "CREATE TABLE t(line = 'k=([a-z]+) a=([0-9]+) b=([0-9]+)', line[1] => k TEXT, line[2] => a INT, line[3] => b INT);";

/// Every refresh of a line-by-line run that goes on after a failed refresh: the DISTINCT table = the table without
/// DISTINCT minus its duplicate rows, and DISTINCT changes nothing about which refreshes fail.
fn check_failing_having(fh: &FailingHaving, obs: &mut Obs) -> Result<(), Failure> {
    let select = FH_SELECT[fh.select as usize % FH_SELECT.len()];
    let text = |distinct: &str| format!("SELECT {}{} FROM t GROUP BY k HAVING SUM(a) / SUM(b) >= {}", distinct, select, fh.threshold);
    let lines: Vec<String> = fh.rows.iter().map(|(k, a, b)| format!("k={} a={} b={}", ["a", "b", "c", "d"][*k as usize % 4], a, b)).collect();
    let context = format!("query: {}\n  table: {}\n  lines: {:?}", text("DISTINCT "), FH_DEFS, lines);
    let harness = |e: String| Failure::new("harness-problem", e);
    let tables = build_tables(FH_DEFS).map_err(harness)?;
    let st_d = parse_statement(&text("DISTINCT ")).map_err(harness)?;
    let st_p = parse_statement(&text("")).map_err(harness)?;
    let panic_fail = |p: String| Failure::new(format!("panic: {}", crate::run::panic_class(&p)), format!("panicked: {}\n  {}", p, context));
    let mut eng_d = crate::run::catch(|| ExecutionEngine::new(&tables, &st_d)).map_err(panic_fail)?;
    let mut eng_p = crate::run::catch(|| ExecutionEngine::new(&tables, &st_p)).map_err(panic_fail)?;
    obs.label("failing-having");
    let mut failed_before = false;
    let to_rows = |lo: &LineOut| -> Vec<Vec<V>> { lo.result.as_ref().map(|rr| rr.data.iter().map(|r| r.columns.iter().map(V::from_real).collect()).collect()).unwrap_or_default() };
    for (i, line) in lines.iter().enumerate() {
        let d = engine_line(&mut eng_d, line, &ExecutionConfig::default()).map_err(panic_fail)?;
        let p = engine_line(&mut eng_p, line, &ExecutionConfig::default()).map_err(panic_fail)?;
        obs.inner += 1;
        match (&d, &p) {
            (Ok(d), Ok(p)) => {
                let (a, b) = (to_rows(d), to_rows(p));
                let want = dedup_rows(&b);
                let same = a.len() == want.len() && a.iter().zip(want.iter()).all(|(x, y)| x.len() == y.len() && x.iter().zip(y.iter()).all(|(p, q)| p.ref_eq(q) || (p.is_null() && q.is_null())));
                if failed_before && !b.is_empty() {
                    obs.label("refresh-after-failed-refresh");
                    obs.nontrivial = true;
                }
                if !same {
                    return Err(Failure::new(
                        if failed_before { "refresh-after-failed-refresh: aggregate+having" } else { "refresh: aggregate+having (failing-having mode)" },
                        format!("after line {} the DISTINCT table is {:?}\n  without DISTINCT: {:?}\n  an earlier refresh had failed: {}\n  {}", i + 1, a, b, failed_before, context),
                    ));
                }
            }
            (Err(_), Err(_)) => failed_before = true,
            (d, p) => {
                return Err(Failure::new(
                    "failing-having: DISTINCT changes which refresh fails",
                    format!("after line {}: with DISTINCT {:?}, without {:?}\n  {}", i + 1, d.as_ref().map(|_| "a table").map_err(|e| e.clone()), p.as_ref().map(|_| "a table").map_err(|e| e.clone()), context),
                ));
            }
        }
    }
    Ok(())
}

pub struct C08;

impl Case {
    pub fn all_lines(&self) -> Vec<String> {
        if self.filler == 0 {
            return self.lines.clone();
        }
        let mut out = self.lines.clone();
        let mut t = Tape::new(&[]);
        for i in 0..self.filler {
            let values: Vec<V> = self
                .table
                .cols
                .iter()
                .map(|(_, ty)| match ty {
                    Ty::Int => V::Int(1000 + i as i64),
                    Ty::Real => V::Real(1000.0 + i as f64),
                    Ty::Text => V::Text(format!("f{}", i)),
                    Ty::Ts => V::Ts((1_700_000_000 + i as i64 * 60) * 1_000_000),
                    Ty::Iv => V::Iv((100 + i as i64) * 1_000_000),
                    Ty::Bool => V::Bool(i % 2 == 0),
                    Ty::IntArr => V::Array(vec![V::Int(i as i64)]),
                    Ty::TextArr => V::Array(vec![V::Text(format!("f{}", i))]),
                })
                .collect();
            out.push(self.table.line(&values, &mut t));
        }
        out.extend(self.lines.iter().cloned());
        // rows never seen before that are permutations of each other (the values of two columns of one type exchanged)
        for ty in [Ty::Int, Ty::Text] {
            let same: Vec<usize> = self.table.cols.iter().enumerate().filter(|(_, c)| c.1 == ty).map(|(i, _)| i).collect();
            if same.len() >= 2 {
                for k in 0..4i64 {
                    for swapped in [false, true] {
                        let (x, y) = if swapped { (1, 0) } else { (0, 1) };
                        let mut values: Vec<V> = vec![V::Null; self.table.cols.len()];
                        let pair = if ty == Ty::Int { [V::Int(-10 - k), V::Int(-20 - k)] } else { [V::Text(format!("pa{}", k)), V::Text(format!("pb{}", k))] };
                        values[same[0]] = pair[x].clone();
                        values[same[1]] = pair[y].clone();
                        out.push(self.table.line(&values, &mut t));
                    }
                }
            }
        }
        out
    }
}

fn j_eq(a: &J, b: &J) -> bool {
    match (a, b) {
        (J::Null, J::Null) => true,
        (J::Bool(x), J::Bool(y)) => x == y,
        (J::Str(x), J::Str(y)) => x == y,
        (J::Num(x), J::Num(y)) => {
            if x == y {
                return true;
            }
            match (x.parse::<i64>(), y.parse::<i64>()) {
                (Ok(p), Ok(q)) => p == q,
                _ => match (x.parse::<f64>(), y.parse::<f64>()) {
                    (Ok(p), Ok(q)) => p == q,
                    _ => false,
                },
            }
        }
        (J::Arr(x), J::Arr(y)) => x.len() == y.len() && x.iter().zip(y.iter()).all(|(p, q)| j_eq(p, q)),
        (J::Obj(x), J::Obj(y)) => x.len() == y.len() && x.iter().zip(y.iter()).all(|((k1, v1), (k2, v2))| k1 == k2 && j_eq(v1, v2)),
        _ => false,
    }
}

fn canonical(j: &J, out: &mut String) {
    match j {
        J::Null => out.push_str("null"),
        J::Bool(b) => out.push_str(if *b { "true" } else { "false" }),
        J::Str(s) => {
            out.push('"');
            out.push_str(&s.replace('\\', "\\\\").replace('"', "\\\""));
            out.push('"');
        }
        J::Num(n) => {
            if J::is_integer_literal(n) {
                match n.parse::<i64>() {
                    Ok(i) => out.push_str(&i.to_string()),
                    Err(_) => out.push_str(n),
                }
            } else {
                match n.parse::<f64>() {
                    Ok(f) if f == f.trunc() && f.abs() < 9e15 => out.push_str(&(f as i64).to_string()),
                    Ok(f) => out.push_str(&format!("{:?}", f)),
                    Err(_) => out.push_str(n),
                }
            }
        }
        J::Arr(items) => {
            out.push('[');
            for i in items {
                canonical(i, out);
                out.push(',');
            }
            out.push(']');
        }
        J::Obj(items) => {
            out.push('{');
            for (k, v) in items {
                out.push_str(k);
                out.push(':');
                canonical(v, out);
                out.push(',');
            }
            out.push('}');
        }
    }
}

/// first-occurrence dedup of JSON records under reference tuple equality (numbers by value)
fn dedup_records(records: &[String]) -> Result<Vec<String>, String> {
    let mut seen: std::collections::HashSet<String> = std::collections::HashSet::new();
    let mut out = Vec::new();
    for r in records {
        let j = parse_json(r)?;
        let mut key = String::new();
        canonical(&j, &mut key);
        if seen.insert(key) {
            out.push(r.clone());
        }
    }
    Ok(out)
}

fn v_key(v: &V, out: &mut String) {
    match v {
        V::Null => out.push('n'),
        V::Int(i) => out.push_str(&format!("i{};", i)),
        // numbers by value: a REAL that equals an INT has that INT's key
        V::Real(r) if r.fract() == 0.0 && *r >= -9223372036854775808.0 && *r < 9223372036854775808.0 => out.push_str(&format!("i{};", *r as i64)),
        V::Real(r) => out.push_str(&format!("r{};", r.to_bits())),
        V::Bool(b) => out.push_str(if *b { "T" } else { "F" }),
        V::Text(s) => out.push_str(&format!("t{:?};", s)),
        V::Ts(m) => out.push_str(&format!("s{};", m)),
        V::Iv(m) => out.push_str(&format!("v{};", m)),
        V::Array(items) => {
            out.push('[');
            for i in items {
                v_key(i, out);
            }
            out.push(']');
        }
    }
}

fn dedup_rows(rows: &[Vec<V>]) -> Vec<Vec<V>> {
    let mut seen: std::collections::HashSet<String> = std::collections::HashSet::new();
    let mut out: Vec<Vec<V>> = Vec::new();
    for r in rows {
        let mut key = String::new();
        for v in r {
            v_key(v, &mut key);
            key.push('|');
        }
        if seen.insert(key) {
            out.push(r.clone());
        }
    }
    out
}

/// per line: the rows shown (aggregate: the table of that refresh; select: the rows emitted for that line)
fn per_line_tables(p: &Prepared, lines: &[String]) -> Result<Option<Vec<Vec<Vec<V>>>>, String> {
    let mut engine = match crate::run::catch(|| ExecutionEngine::with_executed_joined_table(&p.tables, &p.statement))? {
        Ok(e) => e,
        Err(_) => return Ok(None),
    };
    let mut out = Vec::new();
    for line in lines {
        match engine_line(&mut engine, line, &ExecutionConfig::default())? {
            Ok(lo) => out.push(lo.result.map(|rr| rr.data.iter().map(|r| r.columns.iter().map(V::from_real).collect()).collect()).unwrap_or_default()),
            Err(_) => return Ok(None),
        }
    }
    Ok(Some(out))
}

fn special_real(t: &mut Tape, ctx: &Ctx) -> V {
    if ctx.excluded("c08_negative_zero") {
        return V::Real(*t.pick(&[0.0, 1.5, 2.0]));
    }
    V::Real(*t.pick(&[0.0, -0.0, 1.5, 0.0, -0.0]))
}

impl Property for C08 {
    type Case = Case;

    fn id(&self) -> &'static str {
        "C08"
    }

    fn rule(&self) -> String {
        "a DISTINCT statement (1-4 columns / expressions, `*`, aggregate DISTINCT with and without HAVING) over <= 20 rows drawn from a pool of 2-4 tuples with controlled near-duplicates: one column \
         changed, a value replaced by NULL, -0.0 vs 0.0 in REAL columns, recurrence after gaps. Oracle (metamorphic): records(DISTINCT Q) = first-occurrence dedup, under reference tuple equality \
         (NULL = NULL, numbers by value), of records(Q), order and content otherwise unchanged; for the batch run and for every per-line refresh. One case in twelve is the failing-HAVING mode: SELECT DISTINCT ... GROUP BY k HAVING SUM(a) / SUM(b) >= c driven line by line, with and without DISTINCT in lockstep, going on after refreshes that fail (division by a SUM that is still 0): every refresh with a table obeys the same relation and DISTINCT does not change which refreshes fail. Non-trivial: Q's output has a non-adjacent duplicate and \
         two rows that differ in exactly one column; distinct by case."
            .to_string()
    }

    fn assumptions(&self) -> Vec<String> {
        vec!["NaN tuples are left to C16".to_string()]
    }

    fn cases(&self, tier: Tier) -> u64 {
        match tier {
            Tier::Quick => 180_000,
            Tier::Thorough => 1_500_000,
        }
    }

    fn shrink_iters(&self) -> u32 {
        3000
    }

    fn tape_len(&self) -> usize {
        700
    }

    fn label_floors(&self) -> Vec<(&'static str, f64)> {
        vec![("non-adjacent-duplicate", 0.3), ("aggregate-distinct", 0.1)]
    }

    fn generate(&self, t: &mut Tape, ctx: &Ctx) -> Case {
        if t.chance(1, 40) {
            // a tuple wider than a machine word has bits (66-72 columns): rows that agree on the first 64 columns and differ only in
            // which of the later columns is NULL
            let ncols = 66 + t.draw(7);
            let table = DataTable { name: "t".into(), json: true, cols: (0..ncols).map(|i| (format!("c{}", i), Ty::Int)).collect(), not_null: None, default_col: None };
            let base: Vec<V> = (0..ncols).map(|i| if i < 64 && t.chance(3, 4) { V::Int(t.range(0, 3)) } else { V::Null }).collect();
            let n = 3 + t.draw(8);
            let mut lines = Vec::new();
            for _ in 0..n {
                let mut row = base.clone();
                match t.draw(4) {
                    0 => {}
                    1 => {
                        let c = t.draw(64);
                        row[c] = V::Int(t.range(0, 3));
                    }
                    _ => {
                        let c = 64 + t.draw(ncols - 64);
                        row[c] = V::Int(1);
                    }
                }
                lines.push(table.line(&row, t));
            }
            let mut query = Select::simple(vec![(crate::sql::E::Star, None)], "t");
            query.distinct = true;
            return Case { table, query, lines, filler: 0, joined: None, joined_lines: Vec::new(), failing_having: None };
        }
        let mut opts = QOpts::all();
        opts.limit = false;
        opts.order_sensitive = false;
        opts.join_share = 2;
        let mut g = gen_query(t, ctx, opts);
        g.query.distinct = true;
        let joined_lines = g.joined.as_ref().map(|j| gen_data(t, j, 8)).unwrap_or_default();
        if let (Some(j), true) = (&g.joined, g.query.group_by.is_empty() && g.query.having.is_none() && t.chance(1, 2)) {
            // only columns of the queried table are projected, the filter looks at a joined column: several partners of
            // one line then give the same tuple, and whether the line shows depends on any partner passing the filter
            let left: Vec<String> = g.table.cols.iter().filter(|c| !j.cols.iter().any(|r| r.0 == c.0)).map(|c| c.0.clone()).collect();
            let right_int: Vec<String> = j.cols.iter().filter(|c| c.1 == Ty::Int).map(|c| if g.table.cols.iter().any(|l| l.0 == c.0) { format!("u.{}", c.0) } else { c.0.clone() }).collect();
            if !left.is_empty() && !right_int.is_empty() && !g.query.items.iter().any(|(e, _)| matches!(e, crate::sql::E::Agg(_, _, _))) {
                let n = 1 + t.draw(2);
                g.query.items = (0..n).map(|i| (crate::sql::E::col(t.pick(&left).as_str()), Some(format!("r{}", i)))).collect();
                g.query.filter = Some(crate::sql::E::bin(*t.pick(&crate::sql::BinOp::CMP), crate::sql::E::col(t.pick(&right_int).as_str()), crate::sql::E::Int(t.range(0, 2))));
            }
        }
        if ctx.excluded("c08_aggregate_distinct_without_having") && !g.query.group_by.is_empty() && g.query.having.is_none() {
            g.query.distinct = true;
        }
        // pool of tuples
        let npool = 2 + t.draw(3);
        let mut pool: Vec<Vec<V>> = Vec::new();
        for _ in 0..npool {
            pool.push(
                g.table
                    .cols
                    .iter()
                    .map(|(_, ty)| {
                        if *ty == Ty::Real {
                            special_real(t, ctx)
                        } else if t.chance(1, 6) {
                            V::Null
                        } else if *ty == Ty::Int && t.chance(1, 5) {
                            // neighbours that collide under a lossy conversion to REAL
                            V::Int(*t.pick(&[9007199254740992, 9007199254740993, 9007199254740994, 1700000000000000000, 1700000000000000001, 1700000000000000128, i64::MAX, i64::MAX - 1]))
                        } else {
                            crate::props::c04::small_value(t, *ty)
                        }
                    })
                    .collect(),
            );
        }
        let n = t.draw(21);
        let mut lines = Vec::new();
        for _ in 0..n {
            let mut row = t.pick(&pool).clone();
            match t.draw(6) {
                0 => {
                    let c = t.draw(row.len());
                    row[c] = V::Null;
                }
                1 => {
                    let c = t.draw(row.len());
                    let ty = g.table.cols[c].1;
                    row[c] = if ty == Ty::Real {
                        special_real(t, ctx)
                    } else if ty == Ty::Int && t.chance(1, 4) {
                        V::Int(*t.pick(&[9007199254740992, 9007199254740993, 1700000000000000000, 1700000000000000001, i64::MAX, i64::MAX - 1]))
                    } else {
                        crate::props::c04::small_value(t, ty)
                    };
                }
                _ => {}
            }
            lines.push(g.table.line(&row, t));
        }
        // long-gap mode: recurrence after thousands of other distinct tuples
        let mut filler = 0;
        let mut query = g.query;
        if query.group_by.is_empty() && query.having.is_none() && !query.items.iter().any(|(e, _)| matches!(e, crate::sql::E::Agg(_, _, _))) && t.chance(1, 60) {
            filler = match ctx.tier {
                // (one long gap in twenty-five exceeds 65 536 rows also in the quick tier)
                crate::run::Tier::Quick => if t.chance(1, 25) { 70_000 } else { *t.pick(&[300, 1100, 2500, 5000]) },
                crate::run::Tier::Thorough => *t.pick(&[300, 1100, 2500, 5000, 20_000, 70_000]),
            };
            query.items = vec![(crate::sql::E::Star, None)];
            query.filter = None;
        }
        // drawn last (earlier tapes keep their cases): one case in twelve is the failing-HAVING mode
        let failing_having = if t.chance(1, 12) {
            let n = 3 + t.draw(8);
            Some(FailingHaving { select: t.draw(FH_SELECT.len()) as u8, threshold: t.range(0, 3), rows: (0..n).map(|_| (t.draw(3) as u8, t.range(0, 12), *t.pick(&[0i64, 0, 1, 2]))).collect() })
        } else {
            None
        };
        Case { table: g.table, query, lines, filler, joined: g.joined, joined_lines, failing_having }
    }

    fn check(&self, case: &Case, ctx: &Ctx, obs: &mut Obs) -> Result<(), Failure> {
        if let Some(fh) = &case.failing_having {
            return match check_failing_having(fh, obs) {
                Err(f) if f.signature == "harness-problem" => {
                    eprintln!("C08 failing-having mode: {}", f.message);
                    std::process::exit(2);
                }
                r => r,
            };
        }
        let lines_all = case.all_lines();
        if case.filler > 0 {
            obs.label("long-gap");
        }
        let mut plain_q = case.query.clone();
        plain_q.distinct = false;
        let with = prepare(ctx, &case.table, case.joined.as_ref(), &case.query, &case.joined_lines, "c08")?;
        let without = prepare(ctx, &case.table, case.joined.as_ref(), &plain_q, &case.joined_lines, "c08w")?;
        if case.joined.is_some() {
            obs.label("join");
        }
        let files = scratch_files(ctx, "c08", &[lines_to_bytes(&lines_all)]);
        let context = format!("query: {}\n  table: {}\n  lines: {:?}{}", with.text, with.defs, case.lines, if case.filler > 0 { format!(" then {} distinct filler rows, then the same lines again", case.filler) } else { String::new() });
        let panic_fail = |p: String| Failure::new(format!("panic: {}", crate::run::panic_class(&p)), format!("panicked: {}\n  {}", p, context));
        let aggregate = with.statement.is_aggregate();
        let kind = if aggregate { if case.query.having.is_some() { "aggregate+having" } else { "aggregate" } } else { "select" };
        if aggregate {
            obs.label("aggregate-distinct");
        }

        // NaN tuples (printed as null in JSON) belong to C16: detect them on the structured per-line results first
        if let Ok(Some(tp)) = per_line_tables(&without, &lines_all) {
            if tp.iter().flatten().flatten().any(|v| matches!(v, V::Real(r) if !r.is_finite())) {
                obs.unspecified += 1;
                return Ok(());
            }
        }
        let d = run_batch(&with.tables, &with.statement, &files, RunOptions::default()).map_err(panic_fail)?;
        let p = run_batch(&without.tables, &without.statement, &files, RunOptions::default()).map_err(panic_fail)?;
        if p.result.is_err() || d.result.is_err() {
            if p.result.is_err() != d.result.is_err() {
                return Err(Failure::new(format!("error-differs: {}", kind), format!("with DISTINCT: {:?}, without: {:?}\n  {}", d.result, p.result, context)));
            }
            obs.unspecified += 1;
            return Ok(());
        }
        let precs = p.records();
        let want = dedup_records(&precs).map_err(|e| Failure::new("undecodable-output", e))?;
        // non-triviality
        let parsed: Vec<J> = precs.iter().take(40).filter_map(|r| parse_json(r).ok()).collect();
        let mut non_adjacent = false;
        let mut one_col = false;
        for i in 0..parsed.len().min(40) {
            for k in 0..i {
                if j_eq(&parsed[i], &parsed[k]) && i - k >= 2 {
                    non_adjacent = true;
                }
                if let (J::Obj(a), J::Obj(b)) = (&parsed[i], &parsed[k]) {
                    if a.len() == b.len() && a.iter().zip(b.iter()).filter(|((_, x), (_, y))| !j_eq(x, y)).count() == 1 {
                        one_col = true;
                    }
                }
            }
        }
        if non_adjacent {
            obs.label("non-adjacent-duplicate");
        }
        if precs.iter().any(|r| r.contains("-0.0")) {
            obs.label("negative-zero");
        }
        obs.nontrivial = non_adjacent && one_col;
        if d.records() != want {
            let neg0 = if precs.iter().any(|r| r.contains("-0.0")) { "+negative-zero" } else { "" };
            return Err(Failure::new(
                format!("batch: {}{}", kind, neg0),
                if precs.len() > 40 {
                    let got = d.records();
                    let first = got.iter().zip(want.iter()).position(|(a, b)| a != b).unwrap_or(got.len().min(want.len()));
                    format!("DISTINCT printed {} records, the first occurrences among the {} records without DISTINCT are {}; first difference at record {}: {:?} vs {:?}\n  {}", got.len(), precs.len(), want.len(), first, got.get(first), want.get(first), context)
                } else {
                    format!("DISTINCT printed {:?}\n  without DISTINCT: {:?}\n  expected (first occurrences): {:?}\n  {}", d.records(), precs, want, context)
                },
            ));
        }

        // every per-line refresh
        let td = per_line_tables(&with, &lines_all).map_err(panic_fail)?;
        let tp = per_line_tables(&without, &lines_all).map_err(panic_fail)?;
        if let (Some(td), Some(tp)) = (td, tp) {
            let has_nan = |t: &Vec<Vec<Vec<V>>>| t.iter().flatten().flatten().any(|v| matches!(v, V::Real(r) if !r.is_finite()));
            if has_nan(&td) || has_nan(&tp) {
                // NaN tuples belong to C16
                obs.unspecified += 1;
                return Ok(());
            }
            if aggregate {
                for (k, (a, b)) in td.iter().zip(tp.iter()).enumerate() {
                    obs.inner += 1;
                    let want = dedup_rows(b);
                    if *a != want && !(a.iter().flatten().chain(b.iter().flatten()).any(|v| matches!(v, V::Real(r) if !r.is_finite()))) {
                        let same = a.len() == want.len() && a.iter().zip(want.iter()).all(|(x, y)| x.len() == y.len() && x.iter().zip(y.iter()).all(|(p, q)| p.ref_eq(q) || (p.is_null() && q.is_null())));
                        if !same {
                            return Err(Failure::new(
                                format!("refresh: {}", kind),
                                format!("after line {} the DISTINCT table is {:?}\n  without DISTINCT: {:?}\n  {}", k + 1, a, b, context),
                            ));
                        }
                    }
                }
            } else {
                let all_d: Vec<Vec<V>> = td.into_iter().flatten().collect();
                let all_p: Vec<Vec<V>> = tp.into_iter().flatten().collect();
                let want = dedup_rows(&all_p);
                let same = all_d.len() == want.len() && all_d.iter().zip(want.iter()).all(|(x, y)| x.len() == y.len() && x.iter().zip(y.iter()).all(|(p, q)| p.ref_eq(q) || (p.is_null() && q.is_null())));
                if !same {
                    return Err(Failure::new(format!("per-line: {}", kind), format!("per-line DISTINCT rows {:?}\n  without DISTINCT: {:?}\n  {}", all_d, all_p, context)));
                }
            }
        }
        Ok(())
    }
}
