//! C01 — regex/split extraction yields exactly the captured, typed column values (reference extraction model).

use serde::{Deserialize, Serialize};

use crate::exec::*;
use crate::extract_model::*;
use crate::run::{catch, Ctx, Failure, Obs, Property, Tier};
use crate::sql::E;
use crate::stmt::*;
use crate::tape::Tape;
use crate::value::*;

#[derive(Clone, Debug, Serialize, Deserialize)]
pub struct Case {
    pub def: TableDef,
    pub lines: Vec<String>,
}

pub struct C01;

/// a capture class: (regex source, what it is for)
#[derive(Clone, Copy, PartialEq, Debug)]
enum Class {
    Digits,
    SignedDigits,
    Decimal,
    Lower,
    Word,
    NonSpace,
    Lazy,
    Greedy,
    Padded,
}

impl Class {
    fn regex(&self) -> &'static str {
        match self {
            Class::Digits => "[0-9]+",
            Class::SignedDigits => "[+-]?[0-9]+",
            Class::Decimal => "[-+0-9.eE]+",
            Class::Lower => "[a-z]*",
            Class::Word => "[A-Za-z]+",
            Class::NonSpace => "\\S*",
            Class::Lazy => ".+?",
            Class::Greedy => ".*",
            Class::Padded => "\\s*[0-9a-z]*\\s*",
        }
    }
}

const ALL_CLASSES: [Class; 9] = [Class::Digits, Class::SignedDigits, Class::Decimal, Class::Lower, Class::Word, Class::NonSpace, Class::Lazy, Class::Greedy, Class::Padded];

const INT_TEXTS: [&str; 16] = ["0", "7", "007", "+5", "-0", "-12", "42", "9223372036854775807", "9223372036854775808", "-9223372036854775808", "-9223372036854775809", "12345678901234567890", "4294967297", "4294967299", "4294969316", "2147483648"];
const REAL_TEXTS: [&str; 16] = ["0", "1.5", "-2.25", "1e5", ".5", "5.", "1e400", "-0.0", "0.1", "1.2.3", "+3.0", "1e-400", "123456789.123456789", "e5", "-", "."];
const WORD_TEXTS: [&str; 14] = ["jan", "Feb", "MAR", "apr", "may", "june", "Jul", "sept", "oct", "Nov", "dec", "abc", "x", "December"];
const FREE_TEXTS: [&str; 15] = ["", "a", "abc", "hello", "12", "1.5", "true", "x=1", "é", "a-b", "2021", "z9", "50%\r100%", "a\rb", "\r"];

fn sample(t: &mut Tape, class: Class) -> String {
    match class {
        Class::Digits => {
            let v = *t.pick(&INT_TEXTS);
            v.trim_start_matches(['+', '-']).to_string()
        }
        Class::SignedDigits => t.pick(&INT_TEXTS).to_string(),
        Class::Decimal => {
            if t.chance(1, 3) {
                t.pick(&INT_TEXTS).to_string()
            } else {
                t.pick(&REAL_TEXTS).to_string()
            }
        }
        Class::Lower => t.pick(&["", "a", "abc", "jan", "may", "x"]).to_string(),
        Class::Word => t.pick(&WORD_TEXTS).to_string(),
        Class::NonSpace | Class::Lazy | Class::Greedy => t.pick(&FREE_TEXTS).to_string(),
        Class::Padded => format!("{}{}{}", t.pick(&["", " ", "  ", "\t", "\u{a0}", "\u{3000}", "\u{b}", " \u{2003}"]), t.pick(&["12", "abc", "", "7"]), t.pick(&["", " ", "   ", "\u{a0}", "\u{85}", "\u{2028}", "\t\u{3000} "])),
    }
}

#[derive(Clone, Debug)]
enum Seg {
    Lit(String),
    Cap(Class, bool),
    /// ((c1)sep(c2))
    Nested(Class, String, Class),
    Alt(Vec<String>),
    /// (?: sep (class) )?  : a non-capturing optional section with one group inside
    OptSection(String, Class),
    /// a zero-width assertion or an end-alternative: (regex source, texts it may stand for in a sample line)
    Raw(&'static str, &'static [&'static str]),
}

struct Pattern {
    segs: Vec<Seg>,
}

impl Pattern {
    fn regex(&self) -> String {
        let mut out = String::new();
        for s in &self.segs {
            match s {
                Seg::Lit(l) => out.push_str(&regex::escape(l)),
                Seg::Cap(c, opt) => {
                    out.push('(');
                    out.push_str(c.regex());
                    out.push(')');
                    if *opt {
                        out.push('?');
                    }
                }
                Seg::Nested(a, sep, b) => out.push_str(&format!("(({}){}({}))", a.regex(), regex::escape(sep), b.regex())),
                Seg::Alt(words) => out.push_str(&format!("(?:{})", words.join("|"))),
                Seg::OptSection(sep, c) => out.push_str(&format!("(?:{}({}))?", regex::escape(sep), c.regex())),
                Seg::Raw(re, _) => out.push_str(re),
            }
        }
        out
    }

    fn groups(&self) -> usize {
        self.segs
            .iter()
            .map(|s| match s {
                Seg::Cap(_, _) | Seg::OptSection(_, _) => 1,
                Seg::Nested(_, _, _) => 3,
                _ => 0,
            })
            .sum()
    }

    fn sample(&self, t: &mut Tape) -> String {
        let mut out = String::new();
        for s in &self.segs {
            match s {
                Seg::Lit(l) => out.push_str(l),
                Seg::Cap(c, opt) => {
                    if !(*opt && t.chance(1, 3)) {
                        out.push_str(&sample(t, *c));
                    }
                }
                Seg::Nested(a, sep, b) => {
                    out.push_str(&sample(t, *a));
                    out.push_str(sep);
                    out.push_str(&sample(t, *b));
                }
                Seg::Alt(words) => out.push_str(t.pick(words).as_str()),
                Seg::OptSection(sep, c) => {
                    if !t.chance(1, 3) {
                        out.push_str(sep);
                        out.push_str(&sample(t, *c));
                    }
                }
                Seg::Raw(_, texts) => out.push_str(*t.pick(*texts)),
            }
        }
        out
    }
}

const SEPS: [&str; 8] = [" ", ";", ",", ": ", " - ", "=", "/", " at "];

fn gen_pattern(t: &mut Tape) -> Pattern {
    let mut segs = Vec::new();
    if t.chance(1, 3) {
        segs.push(Seg::Lit(t.pick(&["A: ", "ts=", "[", "GET "]).to_string()));
    }
    let n = 1 + t.draw(7);
    for i in 0..n {
        if i > 0 {
            segs.push(Seg::Lit(t.pick(&SEPS).to_string()));
        }
        match t.weighted(&[10, 3, 1, 1, 2]) {
            0 => segs.push(Seg::Cap(*t.pick(&ALL_CLASSES), false)),
            1 => segs.push(Seg::Cap(*t.pick(&ALL_CLASSES), true)),
            2 => segs.push(Seg::Nested(*t.pick(&[Class::Digits, Class::Word, Class::Lower]), t.pick(&[":", ".", "-"]).to_string(), *t.pick(&[Class::Digits, Class::Word]))),
            3 => segs.push(Seg::Alt(vec!["GET".to_string(), "POST".to_string(), "put".to_string()])),
            _ => segs.push(Seg::OptSection(t.pick(&[" x=", "#", " +"]).to_string(), *t.pick(&[Class::Digits, Class::Lower, Class::Decimal]))),
        }
        // assertions that look at the characters around the match (they need the whole line, not just the matched span)
        if t.chance(1, 7) {
            segs.push(t.pick(&[
                Seg::Raw("\\b", &["", "", "x", "-"]),
                Seg::Raw("\\B", &["", "ms", "-", "7"]),
                Seg::Raw("(?:$|,)", &["", ",", ", "]),
                Seg::Raw("(?:\\b|_)", &["", "_", "z"]),
                Seg::Raw("\\s*$", &["", " ", "  ", " x"]),
            ]).clone());
        }
    }
    if t.chance(1, 10) {
        segs.insert(0, t.pick(&[Seg::Raw("\\b", &["", "x", "["]), Seg::Raw("\\B", &["", "x", "["]), Seg::Raw("(?:^|;)", &["", ";", "; "])]).clone());
    }
    Pattern { segs }
}

const SPLITS: [&str; 5] = [";", ",\\s*", "\\s+", "[;|]", " - "];
const SCALAR_TYPES: [&str; 6] = ["INT", "REAL", "TEXT", "BOOLEAN", "TIMESTAMP", "INTERVAL"];

fn gen_modifier(t: &mut Tape, ty: &str) -> Option<Modifier> {
    match t.draw(10) {
        0 => Some(Modifier::NotNull),
        1 | 2 if ty == "TEXT" => Some(Modifier::Trim),
        3 | 4 => match ty {
            "INT" => Some(Modifier::Default(E::Int(t.range(0, 99)))),
            "REAL" => Some(Modifier::Default(E::Real("2.5".into()))),
            "TEXT" => Some(Modifier::Default(E::Str(t.pick(&["dflt", "", "N/A"]).to_string()))),
            "BOOLEAN" => Some(Modifier::Default(if t.chance(1, 2) { E::True } else { E::False })),
            _ => None,
        },
        _ => None,
    }
}

impl Property for C01 {
    type Case = Case;

    fn id(&self) -> &'static str {
        "C01"
    }

    fn rule(&self) -> String {
        "a CREATE TABLE text built from a structured spec: 1-3 named patterns (regex ASTs with literal separators, capture groups over 9 classes, optional groups, nested groups, non-capturing alternations and optional \
         sections; or split patterns) plus inline patterns; 1-8 columns `p[i] => name TYPE [NOT NULL | TRIM | DEFAULT v]` (i also out of range), `p[i], q[j], .. => name T[]`, `.. => name TIMESTAMP [MICROSECONDS]` with 2-7 parts, \
         inline `'re' => name TYPE`; every type. Lines are sampled from the regex AST (class-specific pools: 007, +5, -0, i64 extremes and beyond, 20-digit numbers, 1e5, .5, 5., 1e400, month names in every case, \
         4294967297, padded values, empty), then mutated (separator dropped / replaced, truncated, doubled) or replaced by noise. Oracle: reference extraction model (leftmost match via the regex crate, own typed-literal \
         recognisers, position-by-position arrays and timestamps, DEFAULT / TRIM / NOT NULL / BOOLEAN-existence rules) compared column by column with TableDefinition::extract and, for a slice of lines, `SELECT *` output. \
         Non-trivial: a pattern matches with >= 1 participating group and >= 1 column is non-NULL; distinct by (definition, line)."
            .to_string()
    }

    fn assumptions(&self) -> Vec<String> {
        vec![
            "the regex crate defines 'leftmost match' and the split fields".to_string(),
            "gray literals are not judged: REAL texts inf / nan / infinity / overflowing exponents, a single group for an array column, a TIMESTAMP part whose group did not take part, second 59 with a fraction of 1000-1999 ms (chrono leap second)".to_string(),
            "TZ=UTC".to_string(),
        ]
    }

    fn cases(&self, tier: Tier) -> u64 {
        match tier {
            Tier::Quick => 120_000,
            Tier::Thorough => 1_500_000,
        }
    }

    fn tape_len(&self) -> usize {
        900
    }

    fn label_floors(&self) -> Vec<(&'static str, f64)> {
        vec![("timestamp-column", 0.1), ("array-column", 0.1), ("split-pattern", 0.1), ("mutated-line", 0.1)]
    }

    fn generate(&self, t: &mut Tape, ctx: &Ctx) -> Case {
        let mut entries = Vec::new();
        let npat = 1 + t.weighted(&[5, 3, 1]);
        let mut pats: Vec<(String, Option<Pattern>, usize)> = Vec::new(); // name, ast (None = split), group count
        for i in 0..npat {
            let name = ["line", "p", "q2"][i].to_string();
            if t.chance(1, 5) {
                entries.push(Entry::Pattern { name: name.clone(), mode: Some("split".into()), regex: t.pick(&SPLITS).to_string() });
                pats.push((name, None, 6));
            } else {
                let p = gen_pattern(t);
                let mode = if t.chance(1, 6) { Some("match".to_string()) } else { None };
                entries.push(Entry::Pattern { name: name.clone(), mode, regex: p.regex() });
                let g = p.groups();
                pats.push((name, Some(p), g));
            }
        }
        let mut inline_pats: Vec<Pattern> = Vec::new();
        let ncols = 1 + t.draw(8);
        for c in 0..ncols {
            let pick_ref = |t: &mut Tape| {
                let (name, _, groups) = t.pick(&pats).clone_ref();
                // index sometimes out of range, sometimes 0 (whole match / whole line)
                let idx = match t.draw(10) {
                    0 => 0,
                    1 => groups as u64 + 1 + t.draw(3) as u64,
                    _ => 1 + t.draw(groups.max(1)) as u64,
                };
                (name, idx)
            };
            let cname = format!("c{}", c);
            match t.weighted(&[10, 3, 3, 2]) {
                0 => {
                    let ty = t.pick(&SCALAR_TYPES).to_string();
                    let modifier = gen_modifier(t, &ty);
                    entries.push(Entry::Column { source: Source::Groups(vec![pick_ref(t)]), name: cname, ty, modifier });
                }
                1 => {
                    let elem = *t.pick(&["INT", "REAL", "TEXT", "BOOLEAN"]);
                    // (an array of one listed group is an array, too)
                    let n = 1 + t.draw(4);
                    let refs = (0..n).map(|_| pick_ref(t)).collect();
                    let modifier = if t.chance(1, 8) { Some(Modifier::NotNull) } else { None };
                    entries.push(Entry::Column { source: Source::Groups(refs), name: cname, ty: format!("{}[]", elem), modifier });
                }
                2 => {
                    // (up to nine listed groups: those after the seventh take no part)
                    let n = 2 + t.draw(8);
                    let refs = (0..n).map(|_| pick_ref(t)).collect();
                    let modifier = match t.draw(5) {
                        0 => Some(Modifier::Microseconds),
                        1 => Some(Modifier::NotNull),
                        _ => None,
                    };
                    entries.push(Entry::Column { source: Source::Groups(refs), name: cname, ty: "TIMESTAMP".into(), modifier });
                }
                _ => {
                    let mut p = gen_pattern(t);
                    // an inline pattern is bound to its first group: make sure there is one
                    if p.groups() == 0 {
                        p.segs.push(Seg::Cap(Class::Digits, false));
                    }
                    let ty = t.pick(&SCALAR_TYPES).to_string();
                    let modifier = gen_modifier(t, &ty);
                    entries.push(Entry::Column { source: Source::Inline(p.regex()), name: cname, ty, modifier });
                    inline_pats.push(p);
                }
            }
        }
        // a dedicated timestamp table now and then: y, mo, d, h, mi, s, frac in order
        if t.chance(1, 6) {
            entries.clear();
            let re = "^(\\S*) (\\S*) (\\S*) (\\S*):(\\S*):(\\S*)\\.(\\S*)$".to_string();
            entries.push(Entry::Pattern { name: "line".into(), mode: None, regex: re });
            let nparts = 2 + t.draw(6);
            let refs: Vec<(String, u64)> = (1..=nparts as u64).map(|i| ("line".to_string(), i)).collect();
            let modifier = match t.draw(4) {
                0 => Some(Modifier::Microseconds),
                1 => Some(Modifier::NotNull),
                _ => None,
            };
            entries.push(Entry::Column { source: Source::Groups(refs), name: "ts".into(), ty: "TIMESTAMP".into(), modifier });
            entries.push(Entry::Column { source: Source::Groups(vec![("line".into(), 1)]), name: "y".into(), ty: "INT".into(), modifier: None });
            pats.clear();
            inline_pats.clear();
        }
        let def = TableDef { name: "t".into(), entries };

        // lines
        let nlines = 1 + t.draw(8);
        let mut lines = Vec::new();
        for _ in 0..nlines {
            let timestamp_table = pats.is_empty();
            let mut line = if timestamp_table {
                let big = !ctx.excluded("c01_date_part_casts");
                let year = if big && t.chance(1, 8) { *t.pick(&["4294969316", "-1", "99999999999", "2147483648"]) } else { *t.pick(&["2021", "1999", "0", "2024", "12345", "abc"]) };
                let month = if big && t.chance(1, 8) { *t.pick(&["4294967297", "13", "0", "-1"]) } else { *t.pick(&["1", "02", "12", "jan", "FEB", "sept", "June", "xyz", "2"]) };
                let day = if big && t.chance(1, 8) { *t.pick(&["4294967299", "32", "0"]) } else { *t.pick(&["1", "28", "29", "30", "31", "15"]) };
                let hour = *t.pick(&["0", "23", "24", "12", "4294967296", "7"]);
                let min = *t.pick(&["0", "59", "60", "30", "4294967326"]);
                let sec = *t.pick(&["0", "59", "60", "30", "61"]);
                let frac = if big && t.chance(1, 6) { *t.pick(&["9999999", "4294967", "4294968", "1000000", "1000"]) } else { *t.pick(&["0", "1", "999", "123", "123456", "999999", "500"]) };
                format!("{} {} {} {}:{}:{}.{}", year, month, day, hour, min, sec, frac)
            } else {
                // sample every regex pattern and join the samples so that each pattern can find its match in the line
                let mut parts: Vec<String> = Vec::new();
                for (_, ast, _) in &pats {
                    match ast {
                        Some(p) => parts.push(p.sample(t)),
                        None => parts.push(format!("{};{}, {} | {}", sample(t, Class::SignedDigits), sample(t, Class::Decimal), sample(t, Class::Word), sample(t, Class::NonSpace))),
                    }
                }
                for p in &inline_pats {
                    if t.chance(2, 3) {
                        parts.push(p.sample(t));
                    }
                }
                if t.chance(1, 6) && !parts.is_empty() {
                    // two occurrences in one line: the leftmost matters
                    if let Some(p) = pats.first().and_then(|p| p.1.as_ref()) {
                        parts.push(p.sample(t));
                    }
                }
                parts.join(*t.pick(&[" ", " | ", "  "]))
            };
            match t.draw(16) {
                0 if !line.is_empty() => {
                    let cut = t.draw(line.len());
                    if line.is_char_boundary(cut) {
                        line.truncate(cut);
                    }
                }
                1 if !line.is_empty() => {
                    // drop one separator-ish character
                    let idx: Vec<usize> = line.char_indices().filter(|(_, c)| !c.is_alphanumeric()).map(|(i, _)| i).collect();
                    if !idx.is_empty() {
                        let i = *t.pick(&idx);
                        line.remove(i);
                    }
                }
                2 if !line.is_empty() => {
                    let idx: Vec<usize> = line.char_indices().filter(|(_, c)| !c.is_alphanumeric()).map(|(i, _)| i).collect();
                    if !idx.is_empty() {
                        let i = *t.pick(&idx);
                        line.replace_range(i..i + line[i..].chars().next().map(|c| c.len_utf8()).unwrap_or(1), *t.pick(&["_", "x", "  "]));
                    }
                }
                3 => line = t.pick(&["", "noise", "   ", "no match here"]).to_string(),
                _ => {}
            }
            lines.push(line);
        }
        Case { def, lines }
    }

    fn check(&self, case: &Case, ctx: &Ctx, obs: &mut Obs) -> Result<(), Failure> {
        let text = case.def.text();
        let compiled = match compile(&case.def) {
            Some(c) => c,
            None => {
                obs.unspecified += 1;
                return Ok(());
            }
        };
        let tables = match build_tables(&text) {
            Ok(t) => t,
            Err(e) => return Err(Failure::new(if e.starts_with("panic") { "definition-panic" } else { "definition-rejected" }, format!("`{}`: {}", text, e))),
        };
        let def = tables.get("t").ok_or_else(|| Failure::new("definition-lost", text.clone()))?;
        for e in &case.def.entries {
            if let Entry::Column { source, ty, .. } = e {
                if ty == "TIMESTAMP" && matches!(source, Source::Groups(r) if r.len() > 1) {
                    obs.label("timestamp-column");
                }
                if ty.ends_with("[]") {
                    obs.label("array-column");
                }
                if matches!(source, Source::Inline(_)) {
                    obs.label("inline-pattern");
                }
            }
            if let Entry::Pattern { mode: Some(m), .. } = e {
                if m == "split" {
                    obs.label("split-pattern");
                }
            }
        }
        let colnames = case.def.column_names();
        for (li, line) in case.lines.iter().enumerate() {
            obs.inner += 1;
            let model = model_extract(&compiled, line);
            let real = catch(|| def.extract(line)).map_err(|p| Failure::new(format!("panic: {}", crate::run::panic_class(&p)), format!("extract panicked on {:?} with `{}`: {}", line, text, p)))?;
            let context = format!("line {:?}\n  definition: {}", line, text);
            if line == "noise" || line.is_empty() {
                obs.label("mutated-line");
            }
            match &model {
                ModelRow::Unspec => {
                    obs.unspecified += 1;
                }
                ModelRow::Dropped => {
                    if !real.columns.is_empty() && real.any_result() {
                        return Err(Failure::new("not-null-violated", format!("a NOT NULL column is NULL, yet the line yields the row {:?}\n  {}", real.columns, context)));
                    }
                }
                ModelRow::Row(cells) => {
                    if real.columns.is_empty() {
                        return Err(Failure::new("row-dropped", format!("the line yields no row although every NOT NULL column has a value; expected {:?}\n  {}", cells, context)));
                    }
                    if real.columns.len() != cells.len() {
                        return Err(Failure::new("column-count", format!("{} columns extracted, {} defined\n  {}", real.columns.len(), cells.len(), context)));
                    }
                    for (ci, (cell, got)) in cells.iter().zip(real.columns.iter()).enumerate() {
                        let got_v = V::from_real(got);
                        if matches!(cell, Cell::Any) {
                            obs.unspecified += 1;
                        }
                        if !cell_accepts(cell, &got_v) {
                            let (ty, kind) = match &compiled.columns[ci] {
                                (Source::Groups(r), _, ty, m) => (ty.clone(), format!("{}{}", if r.len() > 1 { "multi" } else { "single" }, match m { Some(Modifier::Default(_)) => "+default", Some(Modifier::Trim) => "+trim", Some(Modifier::Microseconds) => "+microseconds", Some(Modifier::NotNull) => "+notnull", _ => "" })),
                                (_, _, ty, _) => (ty.clone(), "other".to_string()),
                            };
                            return Err(Failure::new(
                                format!("value: {} {}", ty, kind),
                                format!("column {} ({}): extracted {:?}, expected {:?}\n  {}", colnames[ci], ty, got_v, cell, context),
                            ));
                        }
                    }
                    if cells.iter().any(|c| c.is_null() == Some(false)) {
                        obs.nontrivial = true;
                    }
                }
            }
            // the row a query sees: `SELECT *` through the executor for the first line of each case
            // (a line ending in CR would lose it as part of a CRLF line end when read from a file)
            if li == 0 && !line.ends_with('\r') {
                if let (Some(admitted), Ok(st)) = (model_admitted(&model), parse_statement("SELECT * FROM t")) {
                    let files = scratch_files(ctx, "c01", &[lines_to_bytes(&[line.clone()])]);
                    let out = run_batch(&tables, &st, &files, RunOptions::default()).map_err(|p| Failure::new(format!("panic: {}", crate::run::panic_class(&p)), format!("SELECT * panicked: {}\n  {}", p, context)))?;
                    let has_nonfinite = real.columns.iter().any(|v| matches!(v, sqlgrep::model::Value::Float(f) if !f.0.is_finite()));
                    if out.result.is_ok() && !has_nonfinite {
                        let recs = out.records();
                        if admitted != (recs.len() == 1) {
                            return Err(Failure::new("select-star: admission", format!("`SELECT *` prints {} record(s) but the line {} a row\n  {}", recs.len(), if admitted { "yields" } else { "does not yield" }, context)));
                        }
                        if let (true, ModelRow::Row(cells)) = (admitted, &model) {
                            match parse_json(&recs[0]) {
                                Ok(J::Obj(items)) => {
                                    let keys: Vec<&String> = items.iter().map(|(k, _)| k).collect();
                                    if keys != colnames.iter().collect::<Vec<_>>() {
                                        return Err(Failure::new("select-star: column-order", format!("`SELECT *` prints keys {:?}, the definition order is {:?}\n  {}", keys, colnames, context)));
                                    }
                                    for ((_, got), (cell, realv)) in items.iter().zip(cells.iter().zip(real.columns.iter())) {
                                        // the printed value must be the extracted one (which the model has accepted above)
                                        if matches!(cell, Cell::Any) {
                                            continue;
                                        }
                                        if let Err(e) = json_matches(&V::from_real(realv), got) {
                                            return Err(Failure::new("select-star: value", format!("`SELECT *` prints {:?}: {}\n  {}", recs[0], e, context)));
                                        }
                                    }
                                }
                                other => return Err(Failure::new("select-star: undecodable", format!("{:?}: {:?}", recs[0], other))),
                            }
                        }
                    }
                }
            }
        }
        Ok(())
    }
}

trait CloneRef {
    fn clone_ref(&self) -> (String, (), usize);
}

impl CloneRef for (String, Option<Pattern>, usize) {
    fn clone_ref(&self) -> (String, (), usize) {
        (self.0.clone(), (), self.2)
    }
}
