//! C05 — JOIN pairs exactly the rows with equal join keys.

use std::collections::HashMap;

use serde::{Deserialize, Serialize};

use crate::data::*;
use crate::exec::*;
use crate::gen_typed::*;
use crate::model_agg::*;
use crate::props::c03::{admitted_rows, compare_rows_grouped, model_row, output_names, RowOutcome};
use crate::props::c04::{compare_table, gen_group_lines, AggGen};
use crate::run::{Ctx, Failure, Obs, Property, Tier};
use crate::sql::*;
use crate::stmt::*;
use crate::tape::Tape;
use crate::value::*;

#[derive(Clone, Debug, Serialize, Deserialize)]
pub struct Case {
    pub left: DataTable,
    pub right: DataTable,
    pub left_lines: Vec<String>,
    pub right_lines: Vec<String>,
    /// the join's file name is replaced by the scratch path of `right_lines` when the case runs
    pub query: Select,
    /// the joined file does not exist
    pub missing_file: bool,
}

pub struct C05;

/// Environment of a pair (r, s) and the `*` expansion (names, values). `s` = None: all joined-side columns NULL.
pub fn pair_env(left: &DataTable, right: &DataTable, r: &[V], s: Option<&[V]>, line: &str) -> (HashMap<String, V>, Vec<String>, Vec<V>) {
    let mut env = HashMap::new();
    let mut names = Vec::new();
    let mut star = Vec::new();
    for ((name, _), v) in left.cols.iter().zip(r.iter()) {
        env.insert(name.clone(), v.clone());
        env.insert(format!("{}.{}", left.name, name), v.clone());
        names.push(name.clone());
        star.push(v.clone());
    }
    env.insert("input".to_string(), V::Text(line.to_string()));
    for (i, (name, _)) in right.cols.iter().enumerate() {
        let v = s.map(|s| s[i].clone()).unwrap_or(V::Null);
        let qualified = format!("{}.{}", right.name, name);
        env.insert(qualified.clone(), v.clone());
        let clash = left.cols.iter().any(|c| &c.0 == name) || name == "input";
        if clash {
            names.push(qualified);
        } else {
            env.insert(name.clone(), v.clone());
            names.push(name.clone());
        }
        star.push(v);
    }
    (env, names, star)
}

fn small_lines(t: &mut Tape, table: &DataTable, max: usize) -> Vec<String> {
    gen_group_lines(t, table, max)
}

impl Property for C05 {
    type Case = Case;

    fn id(&self) -> &'static str {
        "C05"
    }

    fn rule(&self) -> String {
        "two typed tables (1-6 columns each, shared column names in ~40% of cases) x two files (<= 8 lines each: keys duplicated on either side, NULL, absent on one side, non-admitted lines on both sides; one case in ten: up to 40 + 60 lines over a wide key domain) x \
         join column type INT/TEXT/REAL/BOOLEAN x ON in either order x INNER/OUTER x a SELECT (columns of both sides, qualified names, `*`, WHERE) or an aggregate statement over the joined rows; plus the \
         error cases (missing joined file, join column missing on either side). Oracle: nested loop over admitted r x admitted s with reference equality on non-NULL keys (OUTER adds one NULL-right row per \
         partnerless r), then the C03 / C04 references over the pair rows. Non-trivial: a key with multiplicity >= 2 on one side that has a partner, and a partnerless row; distinct by case."
            .to_string()
    }

    fn assumptions(&self) -> Vec<String> {
        vec![
            "rows on both sides are what the real extract returns; expressions fully parenthesised".to_string(),
            "OUTER JOIN under an aggregate is unspecified by the property (generated rarely, not judged)".to_string(),
            "join keys of one type on both sides; -0.0 / NaN keys belong to C16".to_string(),
        ]
    }

    fn cases(&self, tier: Tier) -> u64 {
        match tier {
            Tier::Quick => 300_000,
            Tier::Thorough => 1_500_000,
        }
    }

    fn tape_len(&self) -> usize {
        2000
    }

    fn label_floors(&self) -> Vec<(&'static str, f64)> {
        vec![("outer", 0.2), ("name-clash", 0.15), ("fan-out", 0.1), ("aggregate", 0.1)]
    }

    fn generate(&self, t: &mut Tape, ctx: &Ctx) -> Case {
        let mut left = gen_table(t, "t", "c", true);
        let shared = t.chance(2, 5);
        let mut right = gen_table(t, "u", if shared { "c" } else { "d" }, true);
        left.cols.truncate(4);
        right.cols.truncate(4);
        if left.not_null.map(|i| i >= left.cols.len()).unwrap_or(false) {
            left.not_null = None;
        }
        if right.not_null.map(|i| i >= right.cols.len()).unwrap_or(false) {
            right.not_null = None;
        }
        // join columns of one type
        let regex_ok = |ty: Ty| DataTable::regex_types().contains(&ty);
        let mut jty = *t.pick(&[Ty::Int, Ty::Int, Ty::Text, Ty::Real, Ty::Bool]);
        if (!left.json || !right.json) && !regex_ok(jty) {
            jty = Ty::Int;
        }
        let jl = t.draw(left.cols.len());
        let jr = t.draw(right.cols.len());
        left.cols[jl].1 = jty;
        right.cols[jr].1 = jty;
        // (no further draw, so that the rest of the case is what it was:) one INT join in five has a REAL column on the other side -
        // numbers pair by value, 1 with 1.0
        if jty == Ty::Int && (jl + 2 * jr) % 5 == 4 {
            if jl % 2 == 0 {
                right.cols[jr].1 = Ty::Real;
            } else {
                left.cols[jl].1 = Ty::Real;
            }
        }
        // one case in ten: dozens of keys and partners (wide key domain, up to 40 + 60 lines); drawn last so that the
        // rest of the case does not depend on how much tape the lines take
        let wide = t.chance(1, 10);
        let left_lines = if wide { Vec::new() } else { small_lines(t, &left, 8) };
        let right_lines = if wide { Vec::new() } else { small_lines(t, &right, 8) };

        let mut lcol = left.cols[jl].0.clone();
        let mut rcol = right.cols[jr].0.clone();
        // error cases: join column missing on either side
        match t.draw(20) {
            0 => lcol = "nope".to_string(),
            1 => rcol = "nope".to_string(),
            _ => {}
        }
        let l = ("t".to_string(), lcol);
        let r = ("u".to_string(), rcol);
        let (jleft, jright) = if t.chance(1, 2) { (r, l) } else { (l, r) };
        let outer = t.chance(2, 5);
        let join = Join { outer, table: "u".to_string(), file: "JOINED".to_string(), left: jleft, right: jright };

        // scope: left columns (plain / qualified), right columns (qualified; plain when no clash)
        let mut cols: Vec<(String, Ty)> = Vec::new();
        for (n, ty) in &left.cols {
            cols.push((if t.chance(1, 4) { format!("t.{}", n) } else { n.clone() }, *ty));
        }
        for (n, ty) in &right.cols {
            let clash = left.cols.iter().any(|c| &c.0 == n);
            cols.push((if clash || t.chance(1, 3) { format!("u.{}", n) } else { n.clone() }, *ty));
        }
        let scope = Scope { cols: cols.clone() };
        let mut q = Select::simple(Vec::new(), "t");
        q.join = Some(join);
        let aggregate = t.chance(1, 4);
        if aggregate {
            // aggregate over the joined rows: a combined table for the aggregate generator
            let combined = DataTable { name: "t".into(), json: true, cols: cols.clone(), not_null: None, default_col: None };
            let mut g = AggGen { table: &combined, ctx, excluded: 0 };
            if t.chance(2, 3) {
                q.group_by.push(E::col(&t.pick(&cols).0.clone()));
                q.items.push((q.group_by[0].clone(), Some("k0".into())));
            }
            let n = 1 + t.draw(2);
            for i in 0..n {
                q.items.push((g.aggregate(t, true), Some(format!("a{}", i))));
            }
            q.items.push((E::Agg("COUNT".into(), false, vec![E::Star]), Some("an".into())));
        } else {
            let mut g = TypedGen::new(&scope, GenCfg::plain(), ctx);
            match t.weighted(&[8, 2]) {
                0 => {
                    let n = 1 + t.draw(4);
                    for i in 0..n {
                        let (name, ty) = t.pick(&cols).clone();
                        let e = if t.chance(1, 4) { g.gen(t, ty, 1) } else { E::Col(name) };
                        q.items.push((e, Some(format!("r{}", i))));
                    }
                }
                _ => q.items.push((E::Star, None)),
            }
            if t.chance(1, 3) {
                q.filter = Some(g.gen(t, Ty::Bool, 2));
            }
        }
        let missing_file = t.chance(1, 25);
        let (left_lines, right_lines) = if wide { (crate::props::c04::gen_wide_lines(t, &left, 40), crate::props::c04::gen_wide_lines(t, &right, 60)) } else { (left_lines, right_lines) };
        Case { left, right, left_lines, right_lines, query: q, missing_file }
    }

    fn check(&self, case: &Case, ctx: &Ctx, obs: &mut Obs) -> Result<(), Failure> {
        let defs = format!("{} {}", case.left.definition(), case.right.definition());
        let tables = build_tables(&defs).map_err(|e| Failure::new("definition-rejected", format!("{}: {}", defs, e)))?;
        let jpath = ctx.file("c05-joined.txt");
        if case.missing_file {
            let _ = std::fs::remove_file(&jpath);
        } else {
            write_file(&jpath, &lines_to_bytes(&case.right_lines));
        }
        let mut query = case.query.clone();
        if let Some(j) = query.join.as_mut() {
            j.file = jpath.to_string_lossy().to_string();
        }
        let text = query.text();
        let statement = parse_statement(&text).map_err(|e| Failure::new("query-rejected", format!("`{}`: {}", text, e)))?;
        let lrows = admitted_rows(&tables, "t", &case.left_lines).map_err(|e| Failure::new("panic: extract", e))?;
        let rrows = admitted_rows(&tables, "u", &case.right_lines).map_err(|e| Failure::new("panic: extract", e))?;
        let join = case.query.join.as_ref().unwrap();
        let (lcol, rcol) = if join.left.0 == "t" { (&join.left.1, &join.right.1) } else { (&join.right.1, &join.left.1) };
        let li = case.left.cols.iter().position(|c| &c.0 == lcol);
        let ri = case.right.cols.iter().position(|c| &c.0 == rcol);
        let context = format!("query: {}\n  tables: {}\n  left lines: {:?}\n  joined lines: {:?}", text, defs, case.left_lines, case.right_lines);

        let files = scratch_files(ctx, "c05", &[lines_to_bytes(&case.left_lines)]);
        let real = run_batch(&tables, &statement, &files, RunOptions::default()).map_err(|p| Failure::new(format!("panic: {}", crate::run::panic_class(&p)), format!("panicked: {}\n  {}", p, context)))?;

        if join.outer {
            obs.label("outer");
        }
        if case.left_lines.len() + case.right_lines.len() > 30 {
            obs.label("wide-input");
        }
        if case.right.cols.iter().any(|c| case.left.cols.iter().any(|l| l.0 == c.0)) {
            obs.label("name-clash");
        }
        let is_aggregate = !case.query.group_by.is_empty() || case.query.items.iter().any(|(e, _)| {
            let mut a = false;
            e.visit(&mut |n| {
                if matches!(n, E::Agg(_, _, _)) {
                    a = true;
                }
            });
            a
        });
        if is_aggregate {
            obs.label("aggregate");
        }

        // error cases
        if case.missing_file {
            obs.label("missing-file");
            return if real.result.is_err() && real.records().is_empty() {
                Ok(())
            } else {
                Err(Failure::new("missing-file-not-reported", format!("the joined file does not exist but the query gave {:?} / {:?}\n  {}", real.records(), real.result, context)))
            };
        }
        if ri.is_none() || li.is_none() {
            // "reported as an error, never as an empty result": also when no admitted row of the queried input reaches the join
            obs.label("missing-join-column");
            return if real.result.is_err() {
                Ok(())
            } else {
                Err(Failure::new(
                    if lrows.is_empty() { "missing-join-column-not-reported: no admitted row in the queried input" } else { "missing-join-column-not-reported" },
                    format!("the join column does not exist but the query gave {:?}\n  {}", real.records(), context),
                ))
            };
        }
        let (li, ri) = (li.unwrap(), ri.unwrap());

        // pairs
        let mut fan_out = false;
        let mut partnerless = false;
        let mut null_keys = false;
        struct Cand {
            env: HashMap<String, V>,
            star: Vec<V>,
            left_index: usize,
        }
        let mut cands: Vec<Cand> = Vec::new();
        let mut star_names: Vec<String> = Vec::new();
        for (k, (line_idx, r)) in lrows.iter().enumerate() {
            let key = &r[li];
            let mut partners: Vec<&Vec<V>> = Vec::new();
            if key.is_null() {
                null_keys = true;
            } else {
                for (_, s) in &rrows {
                    if s[ri].is_null() {
                        null_keys = true;
                        continue;
                    }
                    if key.ref_eq(&s[ri]) {
                        partners.push(s);
                    }
                }
            }
            if partners.len() >= 2 {
                fan_out = true;
            }
            if partners.is_empty() {
                partnerless = true;
                if join.outer && !is_aggregate {
                    let (env, names, star) = pair_env(&case.left, &case.right, r, None, &case.left_lines[*line_idx]);
                    star_names = names;
                    cands.push(Cand { env, star, left_index: k });
                }
            }
            for s in partners {
                let (env, names, star) = pair_env(&case.left, &case.right, r, Some(s), &case.left_lines[*line_idx]);
                star_names = names;
                cands.push(Cand { env, star, left_index: k });
            }
        }
        if star_names.is_empty() {
            let (_, names, _) = pair_env(&case.left, &case.right, &vec![V::Null; case.left.cols.len()], None, "");
            star_names = names;
        }
        if fan_out {
            obs.label("fan-out");
        }
        if null_keys {
            obs.label("null-key");
        }
        let dup_right = rrows.iter().enumerate().any(|(i, (_, s))| rrows.iter().skip(i + 1).any(|(_, o)| !s[ri].is_null() && s[ri].ref_eq(&o[ri])));
        obs.nontrivial = (fan_out || dup_right) && partnerless && !cands.is_empty();

        if is_aggregate {
            if join.outer {
                obs.unspecified += 1;
                return Ok(());
            }
            let ctxs: Vec<RowCtx> = cands.into_iter().map(|c| RowCtx { env: c.env }).collect();
            let expected = aggregate_table(&case.query, &ctxs);
            return match compare_table(&case.query, &expected, &real, &context) {
                Ok(u) => {
                    obs.unspecified += u;
                    Ok(())
                }
                Err(mut f) => {
                    f.signature = format!("join-aggregate: {}", f.signature);
                    Err(f)
                }
            };
        }
        let names = output_names(&case.query.items, &star_names);
        let outcomes: Vec<RowOutcome> = cands.iter().map(|c| model_row(&case.query, &c.env, &c.star)).collect();
        let exprs: Vec<&E> = case.query.items.iter().map(|i| &i.0).collect();
        let describe = |j: usize| format!("pair #{} (left row {:?})", j, case.left_lines[lrows[cands[j].left_index].0]);
        let groups: Vec<usize> = cands.iter().map(|c| c.left_index).collect();
        match compare_rows_grouped(&names, &outcomes, &groups, &real, &exprs, &describe) {
            Ok(u) => {
                obs.unspecified += u;
                Ok(())
            }
            Err(mut f) => {
                let kind = if join.outer { "outer" } else { "inner" };
                f.signature = format!("join-{}{}: {}", kind, if null_keys { "+null-key" } else { "" }, f.signature);
                f.message = format!("{}\n  {}", f.message, context);
                Err(f)
            }
        }
    }
}
