//! C12 — every line of every input file reaches the query exactly once, in order.

use serde::{Deserialize, Serialize};

use crate::exec::*;
use crate::run::{Ctx, Failure, Obs, Property, Tier};
use crate::tape::Tape;
use crate::value::{parse_json, J};

#[derive(Clone, Debug, Serialize, Deserialize, PartialEq)]
pub enum Body {
    Text(String),
    /// `count` repetitions of `unit`
    Repeat(String, usize),
    /// not valid UTF-8
    Invalid(Vec<u8>),
}

#[derive(Clone, Debug, Serialize, Deserialize, PartialEq)]
pub enum Term {
    Lf,
    CrLf,
    /// only possible for the last line of a file
    None,
}

#[derive(Clone, Debug, Serialize, Deserialize, PartialEq)]
pub struct LineSpec {
    pub body: Body,
    pub term: Term,
}

impl LineSpec {
    fn body_bytes(&self) -> Vec<u8> {
        match &self.body {
            Body::Text(s) => s.as_bytes().to_vec(),
            Body::Repeat(u, n) => u.repeat(*n).into_bytes(),
            Body::Invalid(b) => b.clone(),
        }
    }
    fn bytes(&self) -> Vec<u8> {
        let mut b = self.body_bytes();
        match self.term {
            Term::Lf => b.push(b'\n'),
            Term::CrLf => b.extend_from_slice(b"\r\n"),
            Term::None => {}
        }
        b
    }
    fn valid(&self) -> bool {
        !matches!(self.body, Body::Invalid(_))
    }
}

#[derive(Clone, Debug, Serialize, Deserialize)]
pub struct Case {
    pub files: Vec<Vec<LineSpec>>,
    /// 0 = SELECT input, 1 = COUNT(*) + ARRAY_AGG(input), 2 = the bytes are the joined file, 3 = selective table,
    /// 4 = the files are the queried side of an OUTER JOIN whose joined file has no partner for any line
    pub kind: u8,
    /// kind 4: what the joined file holds (nothing at all, an empty line, a line that is no row, a row with another key)
    #[serde(default)]
    pub joined_variant: u8,
    /// 0 = every file is a regular file; k > 0: in an additional run, file (k - 1) mod #files reaches the executor
    /// through a named pipe (a handle without a size: what --stdin fed by a pipe, a FIFO, <(...) amount to)
    #[serde(default)]
    pub pipe: u8,
}

pub struct C12;

const DEF_ALL: &str = "CREATE TABLE t('(.*)' => l TEXT);";
const DEF_SELECTIVE: &str = "CREATE TABLE t('^keep:(.*)' => l TEXT);";
const DEF_OUTER: &str = "CREATE TABLE t(q = '(.*)', q[1] => m TEXT, q[9] => k TEXT DEFAULT 'K'); CREATE TABLE u('^key=(.*)' => k TEXT);";
const JOINED_WITHOUT_PARTNER: [&str; 4] = ["", "\n", "noise\n\n", "key=other\n"];
const DEF_JOIN: &str = "CREATE TABLE t(q = '(.*)', q[1] => m TEXT, q[9] => k TEXT DEFAULT 'K'); CREATE TABLE u(p = '(.*)', p[1] => l TEXT, p[9] => k TEXT DEFAULT 'K');";

const BODIES: [&str; 19] = ["", "a", "hello world", "keep:yes", "keep:", "ÅÄÖ €", "😀", "tab\there", "mid\rcr", "  spaced  ", "{\"j\": 1}", "keep:last", "\u{feff}keep:bom", "\u{feff}", "a\u{2028}b", "a\u{85}b", "nul\0nul", "ff\u{c}vt\u{b}", "\u{2029}"];

fn file_bytes(file: &[LineSpec]) -> Vec<u8> {
    file.iter().flat_map(|l| l.bytes()).collect()
}

/// The lines of one file as the model sees them: (bytes without terminator, alternative with a trailing CR kept/stripped, valid)
fn model_lines(file: &[LineSpec]) -> Vec<(Vec<Vec<u8>>, bool)> {
    // Adjacent specs whose terminator is None (only the last may be) do not merge: the generator guarantees None only at the end.
    let mut out = Vec::new();
    for spec in file {
        let body = spec.body_bytes();
        // an empty unterminated last line is not a line
        if spec.term == Term::None && body.is_empty() {
            continue;
        }
        let mut alts = vec![body.clone()];
        match spec.term {
            Term::CrLf => {
                // CR of a CRLF end: stripped (usual) or kept
                let mut with_cr = body.clone();
                with_cr.push(b'\r');
                alts.push(with_cr);
            }
            _ => {
                if body.last() == Some(&b'\r') {
                    // a lone CR before LF is a CRLF end as well
                    alts.push(body[..body.len() - 1].to_vec());
                }
            }
        }
        out.push((alts, spec.valid()));
    }
    out
}

fn decode_strings(out: &RunOut, key: &str) -> Result<Vec<String>, String> {
    let mut v = Vec::new();
    for rec in out.records() {
        match parse_json(&rec) {
            Ok(obj) => match obj.get(key) {
                Some(J::Str(s)) => v.push(s.clone()),
                other => return Err(format!("record {:?}: key {} is {:?}", rec, key, other)),
            },
            Err(e) => return Err(format!("record {:?}: {}", rec, e)),
        }
    }
    Ok(v)
}

struct Observed {
    lines: Vec<String>,
    count: Option<i64>,
    errored: bool,
    total_lines: u64,
}

fn run_kind(ctx: &Ctx, kind: u8, contents: &[Vec<u8>]) -> Result<Observed, Failure> {
    run_kind_piped(ctx, kind, contents, None)
}

/// `piped`: index of the queried file that is delivered through a named pipe instead of a regular file.
fn run_kind_piped(ctx: &Ctx, kind: u8, contents: &[Vec<u8>], piped: Option<usize>) -> Result<Observed, Failure> {
    let panic_fail = |e: String| if e.starts_with("harness:") { Failure::new("harness-problem", e) } else { Failure::new("panic", e) };
    let run_query = |ctx: &Ctx, defs: &str, q: &str, contents: &[Vec<u8>]| match piped {
        Some(i) if kind != 2 => run_query_piped(ctx, defs, q, contents, i),
        _ => run_query(ctx, defs, q, contents),
    };
    match kind {
        k if k >= 4 => {
            // every line of the queried files has no partner: an OUTER JOIN presents each of them once all the same
            let jpath = ctx.file("joined-without-partner.txt");
            write_file(&jpath, JOINED_WITHOUT_PARTNER[(k as usize - 4) % JOINED_WITHOUT_PARTNER.len()].as_bytes());
            let q = format!("SELECT m FROM t OUTER JOIN u::{} ON t.k = u.k", crate::sql::quote(&jpath.to_string_lossy()));
            let out = run_query(ctx, DEF_OUTER, &q, contents).map_err(panic_fail)?;
            let lines = decode_strings(&out, "m").map_err(|e| Failure::new("undecodable-output", e))?;
            Ok(Observed { lines, count: None, errored: out.result.is_err(), total_lines: out.total_lines })
        }
        0 | 3 => {
            let defs = if kind == 0 { DEF_ALL } else { DEF_SELECTIVE };
            let q = if kind == 0 { "SELECT input FROM t" } else { "SELECT l FROM t" };
            let out = run_query(ctx, defs, q, contents).map_err(panic_fail)?;
            let key = if kind == 0 { "input" } else { "l" };
            let lines = decode_strings(&out, key).map_err(|e| Failure::new("undecodable-output", e))?;
            Ok(Observed { lines, count: None, errored: out.result.is_err(), total_lines: out.total_lines })
        }
        1 => {
            let out = run_query(ctx, DEF_ALL, "SELECT COUNT(*) AS n, ARRAY_AGG(input) AS a FROM t", contents).map_err(panic_fail)?;
            let mut lines = Vec::new();
            let mut count = None;
            for rec in out.records() {
                let obj = parse_json(&rec).map_err(|e| Failure::new("undecodable-output", format!("{:?}: {}", rec, e)))?;
                if let Some(J::Num(n)) = obj.get("n") {
                    count = n.parse::<i64>().ok();
                }
                if let Some(J::Arr(items)) = obj.get("a") {
                    for it in items {
                        if let J::Str(s) = it {
                            lines.push(s.clone());
                        }
                    }
                }
            }
            Ok(Observed { lines, count, errored: out.result.is_err(), total_lines: out.total_lines })
        }
        _ => {
            // the content is the joined file (several files: concatenated, the join takes one file)
            let joined: Vec<u8> = contents.iter().flat_map(|c| c.iter().copied()).collect();
            let jpath = ctx.file("joined.txt");
            write_file(&jpath, &joined);
            let q = format!("SELECT l FROM t INNER JOIN u::{} ON t.k = u.k", crate::sql::quote(&jpath.to_string_lossy()));
            let out = run_query(ctx, DEF_JOIN, &q, &[b"m\n".to_vec()]).map_err(panic_fail)?;
            let lines = decode_strings(&out, "l").map_err(|e| Failure::new("undecodable-output", e))?;
            Ok(Observed { lines, count: None, errored: out.result.is_err(), total_lines: out.total_lines })
        }
    }
}

/// The joined-file run of kind 2 again, in the same process: the joined file (same name) gets other content and, if
/// the file system lets us, the modification time it had before.
fn run_joined_replaced(ctx: &Ctx, joined: &[u8], keep_mtime: bool) -> Result<Observed, Failure> {
    let jpath = ctx.file("joined.txt");
    let before = std::fs::metadata(&jpath).and_then(|m| m.modified()).ok();
    write_file(&jpath, joined);
    if let (true, Some(m)) = (keep_mtime, before) {
        if let Ok(f) = std::fs::OpenOptions::new().write(true).open(&jpath) {
            let _ = f.set_modified(m);
        }
    }
    let q = format!("SELECT l FROM t INNER JOIN u::{} ON t.k = u.k", crate::sql::quote(&jpath.to_string_lossy()));
    let tables = build_tables(DEF_JOIN).map_err(|e| Failure::new("panic", e))?;
    let statement = parse_statement(&q).map_err(|e| Failure::new("panic", e))?;
    let files = scratch_files(ctx, "in", &[b"m\n".to_vec()]);
    let out = run_batch(&tables, &statement, &files, RunOptions::default()).map_err(|e| Failure::new("panic", e))?;
    let lines = decode_strings(&out, "l").map_err(|e| Failure::new("undecodable-output", e))?;
    Ok(Observed { lines, count: None, errored: out.result.is_err(), total_lines: out.total_lines })
}

fn admitted(kind: u8, line: &[u8]) -> Option<Vec<u8>> {
    if kind == 3 {
        line.strip_prefix(b"keep:").map(|r| r.to_vec())
    } else {
        Some(line.to_vec())
    }
}

/// Compares the observed strings with the model lines of the files in order.
fn compare(kind: u8, files: &[Vec<LineSpec>], obs: &Observed) -> Result<(), Failure> {
    let mut model: Vec<(Vec<Vec<u8>>, bool)> = Vec::new();
    for f in files {
        model.extend(model_lines(f));
    }
    let any_invalid = model.iter().any(|m| !m.1);
    let show = |v: &Vec<String>| v.iter().map(|s| if s.len() > 40 { format!("{}..({} bytes)", &s[..s.char_indices().nth(20).map(|x| x.0).unwrap_or(0)], s.len()) } else { s.clone() }).collect::<Vec<_>>();
    let describe = |files: &[Vec<LineSpec>]| {
        files.iter().map(|f| f.iter().map(|l| format!("{:?}{}", match &l.body { Body::Text(s) => s.clone(), Body::Repeat(u, n) => format!("{}x{}", u, n), Body::Invalid(b) => format!("<invalid {:?}>", b) }, match l.term { Term::Lf => "\\n", Term::CrLf => "\\r\\n", Term::None => "<eof>" })).collect::<Vec<_>>()).collect::<Vec<_>>()
    };
    if !any_invalid {
        if obs.errored {
            return Err(Failure::new("unexpected-error", format!("execution failed on well-formed input {:?}", describe(files))));
        }
        // exact: every line once, in order
        let want: Vec<Vec<Vec<u8>>> = model.iter().filter_map(|(alts, _)| {
            let a: Vec<Vec<u8>> = alts.iter().filter_map(|l| admitted(kind, l)).collect();
            if a.is_empty() { None } else { Some(a) }
        }).collect();
        let ok = want.len() == obs.lines.len() && want.iter().zip(obs.lines.iter()).all(|(alts, got)| alts.iter().any(|a| a.as_slice() == got.as_bytes()));
        if !ok {
            let kindname = if obs.lines.len() < want.len() { "lines-missing" } else if obs.lines.len() > want.len() { "lines-extra" } else { "lines-differ" };
            return Err(Failure::new(
                format!("{}: kind{}", kindname, kind),
                format!("files {:?}\n  query saw {} line(s): {:?}\n  expected {} line(s)", describe(files), obs.lines.len(), show(&obs.lines), want.len()),
            ));
        }
        if let Some(n) = obs.count {
            if n as usize != want.len() {
                return Err(Failure::new(format!("count-differs: kind{}", kind), format!("COUNT(*) = {} but {} lines", n, want.len())));
            }
        }
        if kind != 2 {
            let all: usize = model.len();
            if obs.total_lines as usize != all {
                return Err(Failure::new(format!("consumed-differs: kind{}", kind), format!("{} lines consumed, files have {} lines: {:?}", obs.total_lines, all, describe(files))));
            }
        }
    } else if !obs.errored {
        // no error reported: every well-formed line must still be there, in order (the invalid one may be anything)
        let want: Vec<Vec<Vec<u8>>> = model.iter().filter(|m| m.1).filter_map(|(alts, _)| {
            let a: Vec<Vec<u8>> = alts.iter().filter_map(|l| admitted(kind, l)).collect();
            if a.is_empty() { None } else { Some(a) }
        }).collect();
        let mut i = 0;
        for got in &obs.lines {
            if i < want.len() && want[i].iter().any(|a| a.as_slice() == got.as_bytes()) {
                i += 1;
            }
        }
        if i < want.len() {
            return Err(Failure::new(
                format!("silent-drop-after-invalid-utf8: kind{}", kind),
                format!("files {:?}\n  no error was reported, but only {} of the {} well-formed lines reached the query: {:?}", describe(files), i, want.len(), show(&obs.lines)),
            ));
        }
    }
    Ok(())
}

impl Property for C12 {
    type Case = Case;

    fn id(&self) -> &'static str {
        "C12"
    }

    fn rule(&self) -> String {
        "1-4 files assembled from line bodies (empty, ASCII, non-ASCII, embedded CR, > 8 KiB, > 64 KiB, optionally one invalid-UTF-8 line; now and then a file of 1 000 - 3 000 short lines) and terminators (LF, CRLF, none at the very end); \
         statement kinds: SELECT input, COUNT(*)+ARRAY_AGG(input), a join that loads the bytes as the joined file, a selective table, the queried side of an OUTER JOIN whose joined file (empty, an empty line, a line that is no row, a row with another key) has no partner for any line. Oracle: model line splitter (split at LF, one CR before it \
         tolerated either way - but the same way in the queried files and in the joined file -, unterminated last line included): the query sees the lines of file 1, then file 2, ... exactly once in order; total_lines = number of lines; a run over several \
         LF-terminated files = a run over their concatenation; after an invalid line either every later well-formed line is still processed or an error is reported. Per case, for <= 6 lines, \
         all 2^(n-1) splits into files are tried. In a fifth of the cases one of the queried files is, in an additional run, delivered through a named pipe (a handle without a size that cannot be repositioned - --stdin fed by a pipe, a FIFO, <(...)): same model, and the same result as from the regular file. The joined-file kind is run twice more in the same process after the joined file (same name) was replaced by its lines in reverse order (same length), with and without its old modification time: the lines of the new file arrive. Non-trivial: >= 2 files, or a final line without newline, or a CRLF line, or an invalid line followed by >= 1 valid line; distinct by case."
            .to_string()
    }

    fn assumptions(&self) -> Vec<String> {
        vec!["the table '(.*)' => l TEXT admits every line (also the empty one), so the query output is a faithful transcript of the lines presented".to_string()]
    }

    fn cases(&self, tier: Tier) -> u64 {
        match tier {
            Tier::Quick => 60_000,
            Tier::Thorough => 600_000,
        }
    }

    fn shrink_iters(&self) -> u32 {
        3000
    }

    fn tape_len(&self) -> usize {
        200
    }

    fn label_floors(&self) -> Vec<(&'static str, f64)> {
        vec![("multi-file", 0.2), ("no-final-newline", 0.1), ("crlf", 0.1)]
    }

    fn generate(&self, t: &mut Tape, ctx: &Ctx) -> Case {
        let kind = t.draw(5) as u8;
        let joined_variant = t.draw(4) as u8;
        let nfiles = 1 + t.weighted(&[4, 3, 2, 1]);
        let mut files = Vec::new();
        let mut invalid_used = ctx.excluded("c12_invalid_utf8") || !t.chance(1, 4);
        for _ in 0..nfiles {
            let nlines = t.draw(6);
            let mut file = Vec::new();
            for i in 0..nlines {
                let body = match t.weighted(&[20, 2, 1, 1]) {
                    0 => Body::Text(t.pick(&BODIES).to_string()),
                    1 => Body::Repeat(t.pick(&["ab", "é", "keep:"]).to_string(), 4200 + t.draw(100)),
                    2 => Body::Repeat("x".to_string(), 66_000 + t.draw(100)),
                    _ => {
                        if invalid_used {
                            Body::Text("keep:z".to_string())
                        } else {
                            invalid_used = true;
                            Body::Invalid(t.pick(&[vec![0xff, 0xfe], vec![b'a', 0xc3], vec![0xe2, 0x82], vec![b'k', 0x80, b'z']]).clone())
                        }
                    }
                };
                let last = i + 1 == nlines;
                let term = match t.weighted(&[6, 2, 2]) {
                    0 => Term::Lf,
                    1 => Term::CrLf,
                    _ => {
                        if last {
                            Term::None
                        } else {
                            Term::Lf
                        }
                    }
                };
                file.push(LineSpec { body, term });
            }
            files.push(file);
        }
        if (kind == 2 || kind == 0) && t.chance(1, 12) {
            // a file of more than a thousand (short) lines: block-wise readers and loaders
            let n = 1025 + t.draw(2200);
            let mut many: Vec<LineSpec> = (0..n).map(|i| LineSpec { body: Body::Text(format!("L{}", i)), term: if i % 97 == 5 { Term::CrLf } else { Term::Lf } }).collect();
            many.extend(files[0].drain(..));
            files[0] = many;
        }
        // drawn last: the cases of earlier tapes stay what they were
        let pipe = if t.chance(1, 5) { 1 + t.draw(4) as u8 } else { 0 };
        Case { files, kind, joined_variant, pipe }
    }

    fn check(&self, case: &Case, ctx: &Ctx, obs: &mut Obs) -> Result<(), Failure> {
        let kind = if case.kind >= 4 { 4 + case.joined_variant % 4 } else { case.kind };
        if kind >= 4 {
            obs.label("outer-join-without-partners");
        }
        let all_specs: Vec<&LineSpec> = case.files.iter().flatten().collect();
        let has_invalid = all_specs.iter().any(|l| !l.valid());
        let multi = case.files.len() >= 2;
        let no_final_newline = case.files.iter().any(|f| f.last().map(|l| l.term == Term::None && !l.body_bytes().is_empty()).unwrap_or(false));
        let crlf = all_specs.iter().any(|l| l.term == Term::CrLf);
        let invalid_then_valid = case.files.iter().any(|f| f.iter().position(|l| !l.valid()).map(|p| p + 1 < f.len()).unwrap_or(false));
        if multi {
            obs.label("multi-file");
        }
        if no_final_newline {
            obs.label("no-final-newline");
        }
        if crlf {
            obs.label("crlf");
        }
        if has_invalid {
            obs.label("invalid-utf8");
        }
        if all_specs.iter().any(|l| matches!(l.body, Body::Repeat(_, _))) {
            obs.label("long-line");
        }
        obs.nontrivial = multi || no_final_newline || crlf || invalid_then_valid;

        // 1. the files as given
        let contents: Vec<Vec<u8>> = case.files.iter().map(|f| file_bytes(f)).collect();
        let observed = run_kind(ctx, kind, &contents)?;
        // for the join kind several files are concatenated byte-wise: an unterminated last line merges with the next file's first
        if kind == 2 && case.files.iter().rev().skip(1).any(|f| f.last().map(|l| l.term == Term::None).unwrap_or(false)) {
            obs.unspecified += 1;
        } else {
            compare(kind, &case.files, &observed)?;
        }

        // 2. several newline-terminated files = their concatenation
        let all_terminated = case.files.iter().all(|f| f.last().map(|l| l.term != Term::None).unwrap_or(true));
        if multi && all_terminated && kind != 2 && !has_invalid {
            let concat: Vec<u8> = contents.iter().flat_map(|c| c.iter().copied()).collect();
            let single = run_kind(ctx, kind, &[concat])?;
            obs.inner += 1;
            if single.lines != observed.lines || single.count != observed.count || single.errored != observed.errored {
                return Err(Failure::new(
                    format!("concat-differs: kind{}", kind),
                    format!("{} files give {} lines, their concatenation gives {} lines", case.files.len(), observed.lines.len(), single.lines.len()),
                ));
            }
        }

        // 4. a CR in front of the LF is treated alike by the reader of the queried files and by the joined-file loader
        let has_cr = all_specs.iter().any(|l| l.term == Term::CrLf || l.body_bytes().last() == Some(&b'\r'));
        let inner_ok = case.files.iter().rev().skip(1).all(|f| f.last().map(|l| l.term != Term::None).unwrap_or(true));
        if has_cr && !has_invalid && inner_ok {
            obs.label("cr-consistency");
            let concat: Vec<u8> = contents.iter().flat_map(|c| c.iter().copied()).collect();
            let queried = run_kind(ctx, 0, &[concat.clone()])?;
            let joined = run_kind(ctx, 2, &[concat])?;
            obs.inner += 1;
            if queried.lines != joined.lines {
                let first = queried.lines.iter().zip(joined.lines.iter()).position(|(a, b)| a != b).unwrap_or(queried.lines.len().min(joined.lines.len()));
                return Err(Failure::new(
                    "cr-handling-differs: queried vs joined file",
                    format!("the same bytes give different lines when read as the queried file and as the joined file; first difference at line {}: queried {:?}, joined {:?}", first, queried.lines.get(first), joined.lines.get(first)),
                ));
            }
        }

        // 6. a second run in the same process after the joined file was replaced by other content of the same length
        //    (its lines in reverse order), with and without its old modification time: the lines of the new file arrive
        let flat_all: Vec<LineSpec> = case.files.iter().flatten().cloned().collect();
        if kind == 2 && !has_invalid && flat_all.len() >= 2 && flat_all.iter().all(|l| l.term != Term::None) && flat_all.first().map(|l| l.bytes()) != flat_all.last().map(|l| l.bytes()) {
            obs.label("joined-file-replaced");
            let reversed: Vec<LineSpec> = flat_all.iter().rev().cloned().collect();
            for keep_mtime in [true, false] {
                let again = run_joined_replaced(ctx, &file_bytes(&reversed), keep_mtime)?;
                obs.inner += 1;
                compare(kind, &[reversed.clone()], &again).map_err(|f| Failure::new(format!("joined-file-replaced: {}", f.signature), format!("second run in the same process, joined file replaced by its lines in reverse order (same length{})\n  {}", if keep_mtime { ", modification time restored" } else { "" }, f.message)))?;
            }
        }

        // 5. one of the files arrives through a named pipe (no size, no seeking): the same lines, the same way
        if case.pipe > 0 && kind != 2 {
            let idx = (case.pipe as usize - 1) % case.files.len();
            match run_kind_piped(ctx, kind, &contents, Some(idx)) {
                Err(f) if f.signature == "harness-problem" => {
                    // no named pipes where the scratch files live: nothing is learnt, nothing is claimed
                    obs.label("named-pipe-unavailable");
                    obs.unspecified += 1;
                }
                Err(f) => return Err(f),
                Ok(piped) => {
                    obs.label("named-pipe");
                    obs.inner += 1;
                    compare(kind, &case.files, &piped).map_err(|f| Failure::new(format!("named-pipe: {}", f.signature), format!("file {} of {} delivered through a named pipe\n  {}", idx + 1, case.files.len(), f.message)))?;
                    if piped.errored != observed.errored || (!observed.errored && (piped.lines != observed.lines || piped.count != observed.count || piped.total_lines != observed.total_lines)) {
                        return Err(Failure::new(
                            format!("named-pipe-differs: kind{}", kind),
                            format!("file {} of {} delivered through a named pipe: {} lines (error: {}), as a regular file: {} lines (error: {})", idx + 1, case.files.len(), piped.lines.len(), piped.errored, observed.lines.len(), observed.errored),
                        ));
                    }
                }
            }
        }

        // 3. all splits of a small input into files at line boundaries
        let flat: Vec<LineSpec> = case.files.iter().flatten().cloned().collect();
        let n = flat.len();
        let inner_terminated = n > 0 && flat[..n - 1].iter().all(|l| l.term != Term::None);
        if n >= 2 && n <= 6 && inner_terminated && kind != 2 && !flat.iter().any(|l| matches!(l.body, Body::Repeat(_, _))) {
            obs.label("all-splits");
            for mask in 0u32..(1 << (n - 1)) {
                let mut files: Vec<Vec<LineSpec>> = vec![Vec::new()];
                for (i, l) in flat.iter().enumerate() {
                    files.last_mut().unwrap().push(l.clone());
                    if i + 1 < n && mask & (1 << i) != 0 {
                        files.push(Vec::new());
                    }
                }
                let contents: Vec<Vec<u8>> = files.iter().map(|f| file_bytes(f)).collect();
                let observed = run_kind(ctx, kind, &contents)?;
                obs.inner += 1;
                compare(kind, &files, &observed)?;
            }
        }
        Ok(())
    }
}
