pub mod c13;
pub mod c20;
