pub mod c13;
