pub mod c13;
pub mod c20;
pub mod c14;
pub mod c17;
pub mod c10;
pub mod c12;
pub mod c03;
pub mod c04;
