//! C19 — interrupting a query stops it promptly and leaves consistent output (every interrupt point per case).

use std::cell::Cell;
use std::rc::Rc;
use std::sync::atomic::{AtomicBool, Ordering};
use std::sync::Arc;

use serde::{Deserialize, Serialize};

use crate::data::*;
use crate::exec::*;
use crate::gen_query::*;
use crate::props::c06::prepare;
use crate::run::{Ctx, Failure, Obs, Property, Tier};
use crate::stmt::*;
use crate::tape::Tape;

#[derive(Clone, Debug, Serialize, Deserialize)]
pub struct Case {
    pub table: DataTable,
    pub joined: Option<DataTable>,
    pub query: Select,
    pub files: Vec<Vec<String>>,
    pub joined_lines: Vec<String>,
    /// additionally run through the real FollowFileExecutor (child process); only for statements without join
    #[serde(default)]
    pub follow: bool,
    /// index (over all files) of a line whose bytes are replaced by invalid UTF-8: reading it fails
    #[serde(default)]
    pub bad_line: Option<usize>,
    /// long input: the lines are repeated this many times and only the listed interrupt points are tried
    #[serde(default)]
    pub long: Option<(usize, Vec<usize>)>,
}

pub struct C19;

struct Interrupted {
    out: RunOut,
    /// join_line probe events seen after the flag was cleared
    join_lines_after: usize,
    /// file_line probe events (= lines fetched from an input file) seen after the flag was cleared
    file_lines_after: usize,
    /// file_line probes that found the flag still set (= lines legitimately taken)
    lines_taken_while_running: usize,
    /// all file_line probes
    file_probes: usize,
}

/// Runs the batch executor; the flag is cleared at the `at`-th event of `site` (1-based), or after `rows` printed lines.
fn run_interrupted(p: &crate::props::c06::Prepared, files: &[std::path::PathBuf], site: Option<(&'static str, usize)>, rows: Option<usize>) -> Result<Interrupted, String> {
    run_interrupted_with(p, files, site, rows, true)
}

/// `print_result` = false: the statistics-only run (DisplayOptions::print_result, a public field the benchmarks use)
fn run_interrupted_with(p: &crate::props::c06::Prepared, files: &[std::path::PathBuf], site: Option<(&'static str, usize)>, rows: Option<usize>, print_result: bool) -> Result<Interrupted, String> {
    let running = Arc::new(AtomicBool::new(true));
    let count = Rc::new(Cell::new(0usize));
    let after_join = Rc::new(Cell::new(0usize));
    let after_file = Rc::new(Cell::new(0usize));
    let taken = Rc::new(Cell::new(0usize));
    let taken_out = taken.clone();
    let probes = Rc::new(Cell::new(0usize));
    let probes_out = probes.clone();
    {
        let running = running.clone();
        let count = count.clone();
        let after_join = after_join.clone();
        let after_file = after_file.clone();
        sqlgrep::verif_hooks::set_probe(Some(Box::new(move |s| {
            if s == "file_line" {
                probes.set(probes.get() + 1);
            }
            if !running.load(Ordering::SeqCst) {
                if s == "join_line" {
                    after_join.set(after_join.get() + 1);
                }
                if s == "file_line" {
                    after_file.set(after_file.get() + 1);
                }
            }
            if let Some((site, at)) = site {
                if s == site {
                    count.set(count.get() + 1);
                    if count.get() == at {
                        running.store(false, Ordering::SeqCst);
                    }
                }
            }
            // a file_line probe that still finds the flag set is followed by the consumption of that line
            if s == "file_line" && running.load(Ordering::SeqCst) {
                taken.set(taken.get() + 1);
            }
        })));
    }
    let options = RunOptions { stop_after_lines: rows, running: running.clone(), print_result, ..RunOptions::default() };
    let out = run_batch(&p.tables, &p.statement, files, options);
    sqlgrep::verif_hooks::set_probe(None);
    Ok(Interrupted { out: out?, join_lines_after: after_join.get(), file_lines_after: after_file.get(), lines_taken_while_running: taken_out.get(), file_probes: probes_out.get() })
}

impl Property for C19 {
    type Case = Case;

    fn id(&self) -> &'static str {
        "C19"
    }

    fn rule(&self) -> String {
        "a statement (plain, DISTINCT, LIMIT, aggregate, join) x an input of <= 12 lines over 1-2 files (one line in eight cases unreadable, i.e. invalid UTF-8; one case in forty repeats its lines to 4200-9000 and tries six interrupt points instead of all; one in forty is a GROUP BY over 300-1800 lines with hundreds of groups) x a joined file of <= 40 lines; EVERY interrupt point of the case is tried: the flag is cleared at the e-th \
         `file_line` probe (before line e is taken), at the e-th `join_line` probe (while the joined file is loaded) and after the j-th printed record. Oracle against the uninterrupted run: execute() is Ok; \
         no input line is consumed after the flag is cleared (total_lines = e-1 / unchanged; no further line is even fetched - from this file or from the following ones - beyond the one already in hand; at most 10 further joined-file lines while loading); the captured output is a prefix of the uninterrupted output; \
         an interrupted aggregate prints the table a fresh batch run prints for exactly the consumed lines. A slice of cases also runs through the real FollowFileExecutor in a child process. \
         Non-trivial: an interrupt strictly inside the input (>= 1 line before and after); distinct by case."
            .to_string()
    }

    fn assumptions(&self) -> Vec<String> {
        vec![
            "the interrupt flag is cleared at the probe points (cargo feature verif_hooks) or from inside Printer::println; OS signal delivery and wall-clock promptness are not exercised".to_string(),
        ]
    }

    fn cases(&self, tier: Tier) -> u64 {
        match tier {
            Tier::Quick => 20_000,
            Tier::Thorough => 250_000,
        }
    }

    fn shrink_iters(&self) -> u32 {
        2000
    }

    fn tape_len(&self) -> usize {
        900
    }

    fn label_floors(&self) -> Vec<(&'static str, f64)> {
        vec![("aggregate", 0.2), ("join", 0.15), ("two-files", 0.3)]
    }

    fn generate(&self, t: &mut Tape, ctx: &Ctx) -> Case {
        if t.chance(1, 40) {
            // an aggregate whose table has hundreds of groups when the interrupt comes
            let table = DataTable { name: "t".into(), json: t.chance(1, 2), cols: vec![("c0".to_string(), Ty::Int), ("c1".to_string(), Ty::Int)], not_null: None, default_col: None };
            let n = 300 + t.draw(1500);
            let modulus = 280 + t.draw(1500) as i64;
            let step = 1 + t.draw(97) as i64;
            let offset = t.draw(1000) as i64;
            let lines: Vec<String> = (0..n as i64).map(|i| table.line(&[crate::value::V::Int((i * step + offset) % modulus), crate::value::V::Int(i % 7)], t)).collect();
            let mut query = Select::simple(vec![(crate::sql::E::col("c0"), None)], "t");
            query.items.push((crate::sql::E::Agg("COUNT".into(), false, vec![crate::sql::E::Star]), Some("n".into())));
            if t.chance(1, 2) {
                query.items.push((crate::sql::E::Agg("SUM".into(), false, vec![crate::sql::E::col("c1")]), Some("s".into())));
            }
            query.group_by.push(crate::sql::E::col("c0"));
            let mut points: Vec<usize> = (0..4).map(|_| 1 + t.draw(n)).collect();
            points.push(n);
            points.push(n + 1);
            return Case { table, joined: None, query, files: vec![lines], joined_lines: Vec::new(), follow: false, bad_line: None, long: Some((1, points)) };
        }
        let mut opts = QOpts::all();
        opts.join_share = 3;
        let g = gen_query(t, ctx, opts);
        let lines = crate::props::c04::gen_group_lines(t, &g.table, 12);
        let joined_lines = match &g.joined {
            Some(j) => {
                let mut l = gen_data(t, j, 8);
                if t.chance(1, 2) && !l.is_empty() {
                    // a long joined file: the loader samples the flag every 10th line
                    let n = 12 + t.draw(29);
                    let base = l.clone();
                    while l.len() < n {
                        l.push(base[l.len() % base.len()].clone());
                    }
                }
                l
            }
            None => Vec::new(),
        };
        let two = t.chance(1, 2);
        let files = if two {
            let cut = t.draw(lines.len() + 1);
            vec![lines[..cut].to_vec(), lines[cut..].to_vec()]
        } else {
            vec![lines]
        };
        let follow = g.joined.is_none() && t.chance(1, 25);
        let total: usize = files.iter().map(|f| f.len()).sum();
        let bad_line = if total > 0 && t.chance(1, 8) { Some(t.draw(total)) } else { None };
        let long = if !follow && total >= 4 && t.chance(1, 40) {
            // beyond any "first few thousand lines" regime: 4200-9000 lines, a handful of interrupt points
            let repeat = (4200 + t.draw(4800)) / total + 1;
            let n = total * repeat;
            let mut points: Vec<usize> = (0..4).map(|_| 1 + t.draw(n)).collect();
            points.push(n - t.draw(total.min(n)));
            points.push(4097 + t.draw(n - 4097));
            Some((repeat, points))
        } else {
            None
        };
        Case { table: g.table, joined: g.joined, query: g.query, files, joined_lines, follow, bad_line, long }
    }

    fn check(&self, case: &Case, ctx: &Ctx, obs: &mut Obs) -> Result<(), Failure> {
        let p = prepare(ctx, &case.table, case.joined.as_ref(), &case.query, &case.joined_lines, "c19")?;
        // the input as byte lines (one line may be unreadable), optionally repeated
        const UNREADABLE: &[u8] = b"c0=1;\xff\xfe;";
        let repeat = case.long.as_ref().map(|l| l.0.max(1)).unwrap_or(1);
        let mut index = 0usize;
        let mut file_lines: Vec<Vec<Vec<u8>>> = Vec::new();
        for f in &case.files {
            let mut one: Vec<Vec<u8>> = Vec::new();
            for l in f {
                one.push(if case.bad_line == Some(index) { UNREADABLE.to_vec() } else { l.as_bytes().to_vec() });
                index += 1;
            }
            file_lines.push(one);
        }
        if repeat > 1 {
            // repeat the readable lines in front: the unreadable one (if any) stays in the last repetition
            let flat: Vec<Vec<u8>> = case.files.iter().flatten().map(|l| l.as_bytes().to_vec()).collect();
            let mut front: Vec<Vec<u8>> = Vec::new();
            for _ in 1..repeat {
                front.extend(flat.iter().cloned());
            }
            front.extend(file_lines[0].drain(..));
            file_lines[0] = front;
        }
        let join_lines = |ls: &[Vec<u8>]| -> Vec<u8> {
            let mut out = Vec::new();
            for l in ls {
                out.extend_from_slice(l);
                out.push(b'\n');
            }
            out
        };
        let contents: Vec<Vec<u8>> = file_lines.iter().map(|f| join_lines(f)).collect();
        let files = scratch_files(ctx, "c19", &contents);
        let all_lines: Vec<Vec<u8>> = file_lines.iter().flatten().cloned().collect();
        if case.bad_line.is_some() {
            obs.label("unreadable-line");
        }
        if repeat > 1 {
            obs.label("long-input");
        }
        if case.long.is_some() && repeat == 1 {
            obs.label("many-groups");
        }
        let context = format!("query: {}\n  tables: {}\n  files: {:?}\n  unreadable line: {:?}, long input: {:?}\n  joined lines: {}", p.text, p.defs, case.files, case.bad_line, case.long, case.joined_lines.len());
        let panic_fail = |m: String| Failure::new(format!("panic: {}", crate::run::panic_class(&m)), format!("panicked: {}\n  {}", m, context));
        let aggregate = p.statement.is_aggregate();
        if aggregate {
            obs.label("aggregate");
        }
        if case.query.join.is_some() {
            obs.label("join");
        }
        if case.files.len() == 2 {
            obs.label("two-files");
        }
        let kind = if aggregate { "aggregate" } else if case.query.join.is_some() { "join" } else { "select" };

        let full_run = run_interrupted(&p, &files, None, None).map_err(panic_fail)?;
        let full_probes = full_run.file_probes;
        let full = full_run.out;
        let n = all_lines.len();
        let points: Vec<usize> = match &case.long {
            Some((_, pts)) => pts.iter().map(|p| (*p).clamp(1, n + 1)).collect(),
            None => (1..=(n + 1)).collect(),
        };
        obs.nontrivial = n >= 3;

        // the table a fresh run prints for exactly the first k lines
        let batch_prefix = |k: usize| -> Result<RunOut, Failure> {
            let f = scratch_files(ctx, "c19p", &[join_lines(&all_lines[..k.min(n)])]);
            run_batch(&p.tables, &p.statement, &f, RunOptions::default()).map_err(|m| Failure::new("panic", m))
        };

        // 1. interrupt before input line e is taken
        for e in points.iter().cloned() {
            obs.inner += 1;
            let r = run_interrupted(&p, &files, Some(("file_line", e)), None).map_err(panic_fail)?;
            let where_ = format!("interrupt at the {}. file_line probe", e);
            if e > n {
                // the probe never fires for e = n + 1 unless a line is missing: equals the full run
                if r.out != full {
                    return Err(Failure::new(format!("{}: run without interrupt differs", kind), format!("{}\n  {}", where_, context)));
                }
                continue;
            }
            // did the uninterrupted run get that far (LIMIT / an error may end it earlier)?
            if full_probes < e {
                continue;
            }
            // no error is reported: the lines consumed before the interrupt were all processed without one
            // (an error the uninterrupted run meets at line e or later has not happened yet)
            if r.out.result.is_err() && batch_prefix(e - 1)?.result.is_ok() {
                return Err(Failure::new(
                    format!("{}: error-after-interrupt{}", kind, if case.bad_line.is_some() { " (unreadable line ahead)" } else { "" }),
                    format!("{}: execute() reported {:?}\n  {}", where_, r.out.result, context),
                ));
            }
            if r.file_lines_after > 0 {
                // the flag was cleared before line e was taken: nothing more is fetched, from this file or from the next ones
                return Err(Failure::new(
                    format!("{}: lines fetched from the input after the interrupt", kind),
                    format!("{}: {} further line(s) were fetched from the input files (one per remaining file?)\n  {}", where_, r.file_lines_after, context),
                ));
            }
            if r.out.total_lines != (e - 1) as u64 {
                return Err(Failure::new(
                    format!("{}: lines-consumed-after-interrupt", kind),
                    format!("{}: {} lines consumed (expected {})\n  {}", where_, r.out.total_lines, e - 1, context),
                ));
            }
            // a run that prints nothing (statistics only) notices the interrupt at the same line
            if r.out.result.is_ok() {
                let silent = run_interrupted_with(&p, &files, Some(("file_line", e)), None, false).map_err(panic_fail)?;
                if silent.file_lines_after > 0 || silent.out.total_lines != (e - 1) as u64 {
                    return Err(Failure::new(
                        format!("{}: lines-consumed-after-interrupt (nothing printed)", kind),
                        format!("{} with print_result = false: {} lines consumed (expected {}), {} fetched after the interrupt\n  {}", where_, silent.out.total_lines, e - 1, silent.file_lines_after, context),
                    ));
                }
            }
            if aggregate {
                let want = batch_prefix(e - 1)?;
                if r.out.result.is_ok() && want.result.is_ok() && r.out.lines != want.lines {
                    return Err(Failure::new(
                        "aggregate: table-not-for-consumed-lines".to_string(),
                        format!("{}: printed {:?}\n  a batch run over the {} consumed lines prints {:?}\n  {}", where_, r.out.lines, e - 1, want.lines, context),
                    ));
                }
            } else if r.out.lines.len() > full.lines.len() || r.out.lines[..] != full.lines[..r.out.lines.len()] {
                return Err(Failure::new(
                    format!("{}: output-not-a-prefix", kind),
                    format!("{}: printed {:?}\n  uninterrupted: {:?}\n  {}", where_, r.out.lines, full.lines, context),
                ));
            }
        }

        // 2. interrupt after the j-th printed line (non-aggregate: rows appear while reading)
        if !aggregate {
            let row_points: Vec<usize> = match &case.long {
                Some((_, pts)) => pts.iter().map(|p| (*p).clamp(1, full.lines.len().max(1))).filter(|p| *p <= full.lines.len()).collect(),
                None => (1..=full.lines.len()).collect(),
            };
            for j in row_points {
                obs.inner += 1;
                let r = run_interrupted(&p, &files, None, Some(j)).map_err(panic_fail)?;
                let where_ = format!("interrupt after the {}. printed line", j);
                if r.out.result.is_err() && full.result.is_ok() {
                    return Err(Failure::new(format!("{}: error-after-interrupt", kind), format!("{}: execute() reported {:?}\n  {}", where_, r.out.result, context)));
                }
                // interrupted while the last line of a file was being processed: the next file is not touched at all
                let mut boundary = 0usize;
                let at_file_end = file_lines.iter().take(file_lines.len().saturating_sub(1)).any(|f| {
                    boundary += f.len();
                    boundary == r.lines_taken_while_running && boundary > 0
                });
                if at_file_end && r.file_lines_after > 0 {
                    return Err(Failure::new(
                        format!("{}: a line fetched from the next file after the interrupt", kind),
                        format!("{}: the interrupt came while the last line of a file was processed, yet {} line(s) were fetched from the following input\n  {}", where_, r.file_lines_after, context),
                    ));
                }
                if r.file_lines_after > 1 {
                    // the line after the one that was being processed may already have been fetched; nothing beyond it
                    return Err(Failure::new(
                        format!("{}: lines fetched from the input after the interrupt", kind),
                        format!("{}: {} further lines were fetched from the input files\n  {}", where_, r.file_lines_after, context),
                    ));
                }
                if r.out.total_lines as usize != r.lines_taken_while_running {
                    return Err(Failure::new(
                        format!("{}: lines-consumed-after-interrupt", kind),
                        format!("{}: {} lines had been taken when the flag was cleared, {} were consumed in the end\n  {}", where_, r.lines_taken_while_running, r.out.total_lines, context),
                    ));
                }
                if r.out.lines.len() < j.min(full.lines.len()) || r.out.lines.len() > full.lines.len() || r.out.lines[..] != full.lines[..r.out.lines.len()] {
                    return Err(Failure::new(
                        format!("{}: output-not-a-prefix", kind),
                        format!("{}: printed {:?}\n  uninterrupted: {:?}\n  {}", where_, r.out.lines, full.lines, context),
                    ));
                }
            }
        }

        // 3. interrupt while the joined file is loaded
        if case.query.join.is_some() {
            let m = case.joined_lines.len();
            for e in 1..=m {
                obs.inner += 1;
                let r = run_interrupted(&p, &files, Some(("join_line", e)), None).map_err(panic_fail)?;
                let where_ = format!("interrupt at the {}. join_line probe (of {})", e, m);
                if r.out.result.is_err() && full.result.is_ok() {
                    return Err(Failure::new("join-load: error-after-interrupt".to_string(), format!("{}: execute() reported {:?}\n  {}", where_, r.out.result, context)));
                }
                // the probe of line e fired before the flag was sampled for it: at most ten more lines are taken
                if r.join_lines_after > 10 {
                    return Err(Failure::new("join-load: more-than-ten-lines-after-interrupt".to_string(), format!("{}: {} further joined-file lines were read\n  {}", where_, r.join_lines_after, context)));
                }
                if r.out.total_lines != 0 {
                    return Err(Failure::new("join-load: input-consumed-after-interrupt".to_string(), format!("{}: {} input lines consumed afterwards\n  {}", where_, r.out.total_lines, context)));
                }
                if !aggregate && !r.out.lines.is_empty() {
                    return Err(Failure::new("join-load: output-after-interrupt".to_string(), format!("{}: printed {:?}\n  {}", where_, r.out.lines, context)));
                }
            }
        }

        // 4. the follow executor (child process)
        if case.follow && case.query.join.is_none() && case.bad_line.is_none() && case.long.is_none() {
            obs.label("follow-executor");
            let content: String = all_lines.iter().map(|l| format!("{}\n", String::from_utf8_lossy(l))).collect();
            let job = |at: Option<usize>| crate::follow_child::FollowJob {
                defs: p.defs.clone(),
                query: p.text.clone(),
                content: content.clone(),
                polls: Vec::new(),
                idle: Vec::new(),
                pre: 1,
                head: true,
                interrupt_at_probe: at,
                file: ctx.file("c19-follow.txt").to_string_lossy().to_string(),
                used_handle: 0,
            };
            let run = |at: Option<usize>| match crate::follow_child::run_follow(ctx, &job(at)) {
                Ok(o) => o,
                Err(e) => {
                    eprintln!("follow child problem: {}", e);
                    std::process::exit(2);
                }
            };
            let whole = run(None);
            for e in 1..=whole.probes {
                obs.inner += 1;
                let r = run(Some(e));
                if r.result.is_err() && whole.result.is_ok() {
                    return Err(Failure::new("follow: error-after-interrupt".to_string(), format!("interrupt at the {}. followed line: {:?}\n  {}", e, r.result, context)));
                }
                if r.probes != e {
                    return Err(Failure::new("follow: lines-consumed-after-interrupt".to_string(), format!("interrupt at the {}. followed line: {} lines were taken\n  {}", e, r.probes, context)));
                }
                if !whole.stdout.starts_with(&r.stdout) {
                    return Err(Failure::new(
                        "follow: output-not-a-prefix".to_string(),
                        format!("interrupt at the {}. followed line printed {:?}\n  uninterrupted: {:?}\n  {}", e, r.stdout, whole.stdout, context),
                    ));
                }
            }
        }
        Ok(())
    }
}
