//! Choice tape: every generator is a decoder over a `Vec<u32>`.
//!
//! A draw maps a tape word monotonically onto `0..n` (`(w * n) >> 32`), so shrinking a word
//! towards zero moves the decoded choice towards the first (simplest) alternative, and an
//! exhausted tape yields 0. proptest generates and shrinks the tape; libFuzzer can feed the
//! same decoders from bytes.

pub struct Tape<'a> {
    words: &'a [u32],
    pos: usize,
}

impl<'a> Tape<'a> {
    pub fn new(words: &'a [u32]) -> Tape<'a> {
        Tape { words, pos: 0 }
    }

    pub fn word(&mut self) -> u32 {
        let w = self.words.get(self.pos).copied().unwrap_or(0);
        self.pos += 1;
        w
    }

    pub fn exhausted(&self) -> bool {
        self.pos >= self.words.len()
    }

    /// Uniform-ish choice in `0..n` (n >= 1), monotone in the tape word.
    pub fn draw(&mut self, n: usize) -> usize {
        if n <= 1 {
            // still consume nothing: keeps decoders stable when an alternative set collapses
            return 0;
        }
        ((self.word() as u64 * n as u64) >> 32) as usize
    }

    /// Inclusive range.
    pub fn range(&mut self, lo: i64, hi: i64) -> i64 {
        debug_assert!(lo <= hi);
        let span = (hi - lo) as u64 + 1;
        lo + ((self.word() as u128 * span as u128) >> 32) as i64
    }

    /// true with probability num/den (false is the "simple" alternative).
    pub fn chance(&mut self, num: u32, den: u32) -> bool {
        let v = self.draw(den as usize) as u32;
        v >= den - num
    }

    pub fn pick<'b, T>(&mut self, items: &'b [T]) -> &'b T {
        &items[self.draw(items.len())]
    }

    /// Weighted choice; returns the index. The first alternative is the simplest.
    pub fn weighted(&mut self, weights: &[u32]) -> usize {
        let total: u32 = weights.iter().sum();
        let mut v = self.draw(total as usize) as u32;
        for (i, w) in weights.iter().enumerate() {
            if v < *w {
                return i;
            }
            v -= *w;
        }
        weights.len() - 1
    }

    pub fn u64(&mut self) -> u64 {
        ((self.word() as u64) << 32) | self.word() as u64
    }

    /// In-place Fisher-Yates driven by the tape (identity permutation on an exhausted tape).
    pub fn shuffle<T>(&mut self, items: &mut [T]) {
        let n = items.len();
        for i in 0..n.saturating_sub(1) {
            let j = i + self.draw(n - i);
            items.swap(i, j);
        }
    }
}
