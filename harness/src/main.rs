//! vcheck-bin <ID> quick|thorough            random + bounded-exhaustive search for one property
//! vcheck-bin <ID> --replay <file>           strict replay of one case file
//! (internal) --child                        run inside a supervised child process


use std::path::PathBuf;

use vcheck::{follow_child, props, run};
use std::sync::Arc;

use run::{Property, Tier};

/// `$body` with `$p` bound to the property object of `$id`
macro_rules! with_prop {
    ($id:expr, $p:ident => $body:expr) => {
        match $id {
            "C01" => { let $p = props::c01::C01; $body }
            "C02" => { let $p = props::c02::C02; $body }
            "C03" => { let $p = props::c03::C03; $body }
            "C04" => { let $p = props::c04::C04; $body }
            "C05" => { let $p = props::c05::C05; $body }
            "C06" => { let $p = props::c06::C06; $body }
            "C07" => { let $p = props::c07::C07; $body }
            "C08" => { let $p = props::c08::C08; $body }
            "C09" => { let $p = props::c09::C09; $body }
            "C10" => { let $p = props::c10::C10; $body }
            "C11" => { let $p = props::c11::C11; $body }
            "C12" => { let $p = props::c12::C12; $body }
            "C13" => { let $p = props::c13::C13; $body }
            "C14" => { let $p = props::c14::C14; $body }
            "C15" => { let $p = props::c15::C15; $body }
            "C16" => { let $p = props::c16::C16; $body }
            "C17" => { let $p = props::c17::C17; $body }
            "C18" => { let $p = props::c18::C18; $body }
            "C19" => { let $p = props::c19::C19; $body }
            "C20" => { let $p = props::c20::C20; $body }
            other => {
                eprintln!("unknown property '{}'", other);
                std::process::exit(2);
            }
        }
    };
}

/// the case a tape (libFuzzer input) decodes to, as a replay document
fn case_from_tape<P: Property>(prop: &P, data: &[u8]) -> serde_json::Value {
    let words = run::words_from_bytes(data);
    let ctx = run::Ctx::standalone("convert");
    let case = prop.generate(&mut vcheck::tape::Tape::new(&words), &ctx);
    serde_json::json!({"property": prop.id(), "note": "from a libFuzzer artifact (tape target)", "case": case})
}

/// `n` random full-length tapes as the starting corpus of the tape target (a pure function of VERIF_SEED)
fn emit_corpus<P: Property>(prop: &P, dir: &str, n: usize) -> i32 {
    let _ = std::fs::create_dir_all(dir);
    let mut state = run::env_seed() ^ 0x9e3779b97f4a7c15;
    let mut next = || {
        // splitmix64
        state = state.wrapping_add(0x9e3779b97f4a7c15);
        let mut z = state;
        z = (z ^ (z >> 30)).wrapping_mul(0xbf58476d1ce4e5b9);
        z = (z ^ (z >> 27)).wrapping_mul(0x94d049bb133111eb);
        z ^ (z >> 31)
    };
    let len = prop.tape_len().min(4000);
    for i in 0..n {
        let mut bytes = Vec::with_capacity(len * 4);
        // a third of the files are short (simple cases), the rest full length
        let words = if i % 3 == 0 { 8 + (next() as usize % len.max(9)) } else { len };
        for _ in 0..words {
            bytes.extend_from_slice(&(next() as u32).to_le_bytes());
        }
        if std::fs::write(format!("{}/seed-{:04}", dir, i), &bytes).is_err() {
            return 2;
        }
    }
    println!("{}", len * 4);
    0
}

fn dispatch<P: Property>(prop: P, args: &[String]) -> i32 {
    let prop = Arc::new(prop);
    let child = args.iter().any(|a| a == "--child");
    let mode = args.get(1).map(|s| s.as_str()).unwrap_or("quick");
    match mode {
        "--replay" => {
            let path = match args.get(2) {
                Some(p) => PathBuf::from(p),
                None => {
                    eprintln!("--replay needs a file");
                    return 2;
                }
            };
            if prop.supervised() && !child {
                return supervise_replay(prop.id(), &path);
            }
            run::run_replay(prop, &path)
        }
        "quick" | "thorough" => {
            let tier = if mode == "quick" { Tier::Quick } else { Tier::Thorough };
            if prop.supervised() && !child {
                return run::supervise(prop.id(), &args[..2], tier);
            }
            run::run_search(prop, tier)
        }
        other => {
            eprintln!("unknown mode '{}'", other);
            2
        }
    }
}

/// C09 runs once per time zone: chrono reads TZ once per process, so each zone is its own (supervised) child.
fn c09_driver(args: &[String]) -> i32 {
    let child = args.iter().any(|a| a == "--child");
    let mode = args.get(1).map(|s| s.as_str()).unwrap_or("quick");
    if child || mode == "--replay" {
        if mode == "--replay" && !child {
            // replay under every zone
            let mut worst = 0;
            for tz in props::c09::TIME_ZONES {
                std::env::set_var("TZ", tz);
                let code = dispatch(props::c09::C09, args);
                worst = worst.max(code);
                if code == 1 {
                    break;
                }
            }
            return worst;
        }
        return dispatch(props::c09::C09, args);
    }
    let tier = if mode == "quick" { Tier::Quick } else { Tier::Thorough };
    let started = std::time::Instant::now();
    let mut worst = 0;
    for tz in props::c09::TIME_ZONES {
        std::env::set_var("TZ", tz);
        std::env::set_var("VCHECK_PART", tz.replace('/', "_"));
        let code = run::supervise("C09", &args[..2], tier);
        eprintln!("C09 under TZ={} -> exit {}", tz, code);
        if code == 1 {
            worst = 1;
            break;
        }
        worst = worst.max(code);
    }
    std::env::remove_var("VCHECK_PART");
    run::merge_parts("C09", tier, started.elapsed().as_secs_f64(), worst == 1);
    worst
}

fn supervise_replay(id: &str, path: &std::path::Path) -> i32 {
    use std::os::unix::process::ExitStatusExt;
    let exe = std::env::current_exe().expect("current_exe");
    let status = std::process::Command::new(exe).arg(id).arg("--replay").arg(path).arg("--child").status().expect("spawn");
    match status.code() {
        Some(c) => c,
        None => {
            println!("VIOLATION property={} replay={}", id, path.display());
            eprintln!("  process ended by signal {:?}", status.signal());
            1
        }
    }
}

fn main() {
    run::install_panic_hook();
    let args: Vec<String> = std::env::args().skip(1).collect();
    if args.len() >= 2 && args[0] == "--follow-child" {
        std::process::exit(follow_child::child_main(&args[1]));
    }
    if args.len() >= 2 && args[0] == "--parse-probe" {
        std::process::exit(props::c14::parse_probe_main(&args[1]));
    }
    if args.len() >= 2 && args[0] == "--run-job" {
        std::process::exit(props::c18::run_job_main(&args[1]));
    }
    if args.len() >= 3 && args[1] == "--from-fuzz" {
        // turn a libFuzzer artifact into a replay file and judge it with the strict replay path
        let data = std::fs::read(&args[2]).unwrap_or_default();
        let out_dir = run::verif_dir().join("out/replays");
        let _ = std::fs::create_dir_all(&out_dir);
        let name = std::path::Path::new(&args[2]).file_name().map(|n| n.to_string_lossy().to_string()).unwrap_or_default();
        let dest = out_dir.join(format!("{}-fuzz-{}.json", args[0], name));
        let tape_target = args.iter().any(|a| a == "--tape");
        let doc = match args[0].as_str() {
            "C14" if !tape_target => serde_json::json!({"property": "C14", "note": "from libFuzzer artifact", "case": {"text": String::from_utf8_lossy(&data), "kind": "fuzz", "all_prefixes": false, "must_reject": false}}),
            id => with_prop!(id, p => case_from_tape(&p, &data)),
        };
        std::fs::write(&dest, serde_json::to_string_pretty(&doc).unwrap()).expect("write replay");
        let mut a = vec![args[0].clone(), "--replay".to_string(), dest.to_string_lossy().to_string()];
        a.extend(args.iter().skip(3).filter(|x| x.as_str() != "--tape").cloned());
        let code = match args[0].as_str() {
            "C09" => c09_driver(&a),
            id => with_prop!(id, p => dispatch(p, &a)),
        };
        std::process::exit(code);
    }
    if args.len() >= 4 && args[1] == "--emit-corpus" {
        let n: usize = args[3].parse().unwrap_or(64);
        let code = with_prop!(args[0].as_str(), p => emit_corpus(&p, &args[2], n));
        std::process::exit(code);
    }
    if args.is_empty() {
        eprintln!("usage: vcheck-bin <ID> quick|thorough|--replay <file>");
        std::process::exit(2);
    }
    let code = match args[0].as_str() {
        "C01" => dispatch(props::c01::C01, &args),
        "C02" => dispatch(props::c02::C02, &args),
        "C03" => dispatch(props::c03::C03, &args),
        "C04" => dispatch(props::c04::C04, &args),
        "C05" => dispatch(props::c05::C05, &args),
        "C06" => dispatch(props::c06::C06, &args),
        "C07" => dispatch(props::c07::C07, &args),
        "C08" => dispatch(props::c08::C08, &args),
        "C09" => c09_driver(&args),
        "C10" => dispatch(props::c10::C10, &args),
        "C11" => dispatch(props::c11::C11, &args),
        "C12" => dispatch(props::c12::C12, &args),
        "C13" => dispatch(props::c13::C13, &args),
        "C14" => dispatch(props::c14::C14, &args),
        "C15" => dispatch(props::c15::C15, &args),
        "C16" => dispatch(props::c16::C16, &args),
        "C17" => dispatch(props::c17::C17, &args),
        "C18" => dispatch(props::c18::C18, &args),
        "C19" => dispatch(props::c19::C19, &args),
        "C20" => dispatch(props::c20::C20, &args),
        other => {
            eprintln!("unknown property '{}'", other);
            2
        }
    };
    std::process::exit(code);
}
