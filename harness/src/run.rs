//! Engine: shards, seeds, shrinking, known findings, supervision, replay, evidence.

use std::collections::{BTreeMap, HashSet};
use std::hash::{Hash, Hasher};
use std::io::Write;
use std::panic::{catch_unwind, AssertUnwindSafe};
use std::path::{Path, PathBuf};
use std::sync::atomic::{AtomicBool, AtomicU64, Ordering};
use std::sync::{Arc, Mutex};
use std::time::{Duration, Instant};

use proptest::prelude::*;
use proptest::test_runner::{Config, RngSeed, TestCaseError, TestError, TestRunner};
use serde::de::DeserializeOwned;
use serde::{Deserialize, Serialize};

use crate::tape::Tape;

pub const SHARDS: usize = 16;
/// root of the verification tree (the directory of the `vcheck` script; `/verif` unless VCHECK_HOME says otherwise)
pub fn verif_dir() -> PathBuf {
    PathBuf::from(std::env::var("VCHECK_HOME").unwrap_or_else(|_| "/verif".to_string()))
}

#[derive(Clone, Copy, PartialEq, Eq, Debug)]
pub enum Tier {
    Quick,
    Thorough,
}

impl Tier {
    pub fn name(&self) -> &'static str {
        match self {
            Tier::Quick => "quick",
            Tier::Thorough => "thorough",
        }
    }
}

/// Per-run context handed to generators and checks.
pub struct Ctx {
    pub tier: Tier,
    pub seed: u64,
    /// exclusion switches of open known findings (generators avoid these shapes)
    pub switches: HashSet<String>,
    pub scratch: PathBuf,
    pub shard: usize,
}

impl Ctx {
    /// a context outside the sharded search (fuzz targets, conversions): thorough tier, shard 0, own scratch directory
    pub fn standalone(tag: &str) -> Ctx {
        static SCRATCH: std::sync::OnceLock<PathBuf> = std::sync::OnceLock::new();
        let scratch = SCRATCH.get_or_init(|| {
            let base = if Path::new("/dev/shm").is_dir() { PathBuf::from("/dev/shm") } else { verif_dir().join("out/scratch") };
            let p = base.join(format!("vcheck-{}-{}", tag, std::process::id()));
            let _ = std::fs::create_dir_all(&p);
            p
        });
        static KNOWN: std::sync::OnceLock<HashSet<String>> = std::sync::OnceLock::new();
        let switches = KNOWN.get_or_init(|| switches_for(&load_known())).clone();
        Ctx { tier: Tier::Thorough, seed: env_seed(), switches, scratch: scratch.clone(), shard: 0 }
    }

    pub fn excluded(&self, switch: &str) -> bool {
        self.switches.contains(switch)
    }

    /// A scratch file path private to this shard.
    pub fn file(&self, name: &str) -> PathBuf {
        self.scratch.join(format!("s{}-{}", self.shard, name))
    }
}

#[derive(Debug, Clone)]
pub struct Failure {
    /// property-specific class of the failure, computed from the (shrunk) input, never from a source line
    pub signature: String,
    pub message: String,
}

impl Failure {
    pub fn new(signature: impl Into<String>, message: impl Into<String>) -> Failure {
        Failure { signature: signature.into(), message: message.into() }
    }
}

/// What one executed case reports besides pass/fail.
#[derive(Default)]
pub struct Obs {
    pub nontrivial: bool,
    pub labels: Vec<&'static str>,
    pub unspecified: u64,
    pub excluded: u64,
    /// inner evaluations (e.g. every n of LIMIT n, every prefix k): counted into `inner_evaluations`
    pub inner: u64,
}

impl Obs {
    pub fn label(&mut self, l: &'static str) {
        if !self.labels.contains(&l) {
            self.labels.push(l);
        }
    }
}

pub trait Property: Sync + Send + 'static {
    type Case: Serialize + DeserializeOwned + Clone + Send + 'static;

    fn id(&self) -> &'static str;
    /// how cases are generated and what makes one non-trivial / distinct
    fn rule(&self) -> String;
    fn assumptions(&self) -> Vec<String>;
    fn tape_len(&self) -> usize {
        400
    }
    /// number of random cases over all shards
    fn cases(&self, tier: Tier) -> u64;
    /// labels that must occur at least this often (fraction of evaluations) or the generator is degenerate
    fn label_floors(&self) -> Vec<(&'static str, f64)> {
        Vec::new()
    }
    fn shrink_iters(&self) -> u32 {
        20_000
    }
    /// run the random search in a supervised child (abort / stack overflow / hang become observable)
    fn supervised(&self) -> bool {
        true
    }
    fn generate(&self, tape: &mut Tape, ctx: &Ctx) -> Self::Case;
    fn check(&self, case: &Self::Case, ctx: &Ctx, obs: &mut Obs) -> Result<(), Failure>;

    /// bounded-exhaustive part: a deterministic finite family of cases, indexed.
    fn enum_count(&self, _tier: Tier, _ctx: &Ctx) -> u64 {
        0
    }
    fn enum_case(&self, _index: u64, _tier: Tier, _ctx: &Ctx) -> Option<Self::Case> {
        None
    }
    fn enum_description(&self) -> Option<String> {
        None
    }
}

// ---------------------------------------------------------------------------------------------
// panic capture

thread_local! {
    static LAST_PANIC: std::cell::RefCell<Option<String>> = std::cell::RefCell::new(None);
}

pub fn install_panic_hook() {
    std::panic::set_hook(Box::new(|info| {
        let msg = if let Some(s) = info.payload().downcast_ref::<&str>() {
            s.to_string()
        } else if let Some(s) = info.payload().downcast_ref::<String>() {
            s.clone()
        } else {
            "<non-string panic>".to_string()
        };
        let loc = info.location().map(|l| format!("{}:{}", l.file(), l.line())).unwrap_or_default();
        LAST_PANIC.with(|c| *c.borrow_mut() = Some(format!("{} @ {}", msg, loc)));
    }));
}

/// Runs `f`, turning a panic into `Err(message @ location)`.
pub fn catch<T>(f: impl FnOnce() -> T) -> Result<T, String> {
    LAST_PANIC.with(|c| *c.borrow_mut() = None);
    match catch_unwind(AssertUnwindSafe(f)) {
        Ok(v) => Ok(v),
        Err(_) => Err(LAST_PANIC.with(|c| c.borrow_mut().take()).unwrap_or_else(|| "panic".to_string())),
    }
}

/// Coarse class of a panic message: the message with digits and quoted payloads removed, and the
/// source file (not the line) of the panic site. Used in signatures.
pub fn panic_class(msg: &str) -> String {
    let (text, loc) = match msg.rfind(" @ ") {
        Some(i) => (&msg[..i], &msg[i + 3..]),
        None => (msg, ""),
    };
    let file = loc.rsplit_once(':').map(|x| x.0).unwrap_or(loc);
    let file = file.rsplit('/').next().unwrap_or(file);
    let mut out = String::new();
    let mut last_digit = false;
    for ch in text.chars().take(80) {
        if ch.is_ascii_digit() {
            if !last_digit {
                out.push('#');
            }
            last_digit = true;
        } else {
            last_digit = false;
            out.push(ch);
        }
    }
    format!("{} [{}]", out, file)
}

// ---------------------------------------------------------------------------------------------
// known findings

#[derive(Deserialize, Debug, Clone)]
pub struct Finding {
    pub id: String,
    pub properties: Vec<String>,
    pub status: String,
    pub signature: String,
    #[serde(default)]
    pub witness: Option<String>,
    pub what: String,
    #[serde(default)]
    pub commit: Option<String>,
    #[serde(default)]
    pub switch: Option<String>,
}

#[derive(Deserialize, Debug, Default)]
pub struct KnownFindings {
    pub findings: Vec<Finding>,
}

pub fn load_known() -> KnownFindings {
    let path = verif_dir().join("known_findings.json");
    match std::fs::read_to_string(&path) {
        Ok(text) => serde_json::from_str(&text).unwrap_or_else(|e| {
            eprintln!("cannot parse {}: {}", path.display(), e);
            std::process::exit(2);
        }),
        Err(_) => KnownFindings::default(),
    }
}

/// the binary that child-process slices start: this executable, or (under a fuzz target) the one named by VCHECK_CHILD_EXE
pub fn child_exe() -> PathBuf {
    match std::env::var("VCHECK_CHILD_EXE") {
        Ok(p) if !p.is_empty() => PathBuf::from(p),
        _ => std::env::current_exe().expect("current_exe"),
    }
}

/// bytes of a libFuzzer input as tape words (little endian, last word zero-padded)
pub fn words_from_bytes(data: &[u8]) -> Vec<u32> {
    data.chunks(4)
        .map(|c| {
            let mut b = [0u8; 4];
            b[..c.len()].copy_from_slice(c);
            u32::from_le_bytes(b)
        })
        .collect()
}

/// One execution of a coverage-guided target: the input bytes are the choice tape of the property's generator, the
/// property's own oracle judges the case. A failure whose signature is an open known finding is ignored (the search
/// continues), any other failure panics - libFuzzer saves the input, `--from-fuzz` re-judges it in the strict replay path.
pub fn fuzz_one<P: Property>(prop: &P, data: &[u8]) {
    static OPEN: std::sync::OnceLock<HashSet<String>> = std::sync::OnceLock::new();
    let open = OPEN.get_or_init(|| load_known().findings.iter().filter(|f| f.status == "open").map(|f| f.signature.clone()).collect());
    let words = words_from_bytes(data);
    let ctx = Ctx::standalone("fuzz");
    let mut tape = Tape::new(&words);
    let case = prop.generate(&mut tape, &ctx);
    let mut obs = Obs::default();
    if let Err(f) = prop.check(&case, &ctx, &mut obs) {
        if !open.contains(&f.signature) {
            panic!("{} oracle: {} :: {}", prop.id(), f.signature, f.message);
        }
    }
}

// ---------------------------------------------------------------------------------------------
// statistics

#[derive(Default)]
pub struct Stats {
    pub evaluations: u64,
    pub inner: u64,
    pub nontrivial: HashSet<u64>,
    pub labels: BTreeMap<&'static str, u64>,
    pub unspecified: u64,
    pub excluded: u64,
    pub samples: Vec<serde_json::Value>,
    pub known_hits: BTreeMap<String, u64>,
    pub enumerated: u64,
    /// survey mode (VCHECK_SURVEY=1): failures by signature, with one example each; nothing is reported as a violation
    pub survey: BTreeMap<String, (u64, String)>,
    pub fallback_samples: Vec<serde_json::Value>,
}

impl Stats {
    fn merge(&mut self, other: Stats) {
        self.evaluations += other.evaluations;
        self.inner += other.inner;
        self.nontrivial.extend(other.nontrivial);
        for (k, v) in other.labels {
            *self.labels.entry(k).or_insert(0) += v;
        }
        self.unspecified += other.unspecified;
        self.excluded += other.excluded;
        for s in other.samples {
            if self.samples.len() < 8 {
                self.samples.push(s);
            }
        }
        if self.fallback_samples.is_empty() {
            self.fallback_samples = other.fallback_samples;
        }
        for (k, v) in other.known_hits {
            *self.known_hits.entry(k).or_insert(0) += v;
        }
        self.enumerated += other.enumerated;
        for (k, (n, msg)) in other.survey {
            let e = self.survey.entry(k).or_insert((0, msg));
            e.0 += n;
        }
    }
}

pub fn fingerprint<T: Serialize>(case: &T) -> u64 {
    let text = serde_json::to_string(case).unwrap_or_default();
    let mut h = std::collections::hash_map::DefaultHasher::new();
    text.hash(&mut h);
    h.finish()
}

struct FoundFailure<C> {
    case: C,
    failure: Failure,
    shrunk: bool,
}

// ---------------------------------------------------------------------------------------------
// the search

struct Shared {
    stop: AtomicBool,
    progress: Vec<AtomicU64>,
    done: Vec<AtomicBool>,
}

fn run_one<P: Property>(prop: &P, case: &P::Case, ctx: &Ctx, obs: &mut Obs) -> Result<(), Failure> {
    match catch(|| prop.check(case, ctx, obs)) {
        Ok(r) => r,
        Err(msg) => Err(Failure::new(format!("panic: {}", panic_class(&msg)), format!("panicked: {}", msg))),
    }
}

fn write_slot<C: Serialize>(path: &Path, n: u64, nt: u64, case: &C) {
    let text = serde_json::json!({ "n": n, "nt": nt, "case": case }).to_string();
    let tmp = path.with_extension("tmp");
    if std::fs::write(&tmp, text).is_ok() {
        let _ = std::fs::rename(&tmp, path);
    }
}

fn shard_search<P: Property>(
    prop: &P,
    ctx: &Ctx,
    shared: &Shared,
    open_signatures: &HashSet<String>,
    cases: u32,
    seed: u64,
) -> (Stats, Option<FoundFailure<P::Case>>) {
    let mut stats = Stats::default();
    let shard = ctx.shard;
    let slot = ctx.scratch.join(format!("slot-{}.json", shard));
    let supervised = prop.supervised();

    // 1. bounded-exhaustive family, strided over the shards
    let total = prop.enum_count(ctx.tier, ctx);
    let mut index = shard as u64;
    while index < total {
        if shared.stop.load(Ordering::Relaxed) {
            return (stats, None);
        }
        if let Some(case) = prop.enum_case(index, ctx.tier, ctx) {
            shared.progress[shard].fetch_add(1, Ordering::Relaxed);
            if supervised {
                write_slot(&slot, stats.evaluations, stats.nontrivial.len() as u64, &case);
            }
            let mut obs = Obs::default();
            let result = run_one(prop, &case, ctx, &mut obs);
            record(&mut stats, &case, &obs);
            stats.enumerated += 1;
            if let Err(failure) = result {
                if survey_mode() {
                    let e = stats.survey.entry(failure.signature.clone()).or_insert((0, failure.message.clone()));
                    e.0 += 1;
                } else if open_signatures.contains(&failure.signature) {
                    *stats.known_hits.entry(failure.signature.clone()).or_insert(0) += 1;
                } else {
                    shared.stop.store(true, Ordering::Relaxed);
                    return (stats, Some(FoundFailure { case, failure, shrunk: false }));
                }
            }
        }
        index += SHARDS as u64;
    }

    // 2. random search with shrinking
    if cases == 0 {
        return (stats, None);
    }
    let config = Config {
        cases,
        failure_persistence: None,
        rng_seed: RngSeed::Fixed(seed),
        max_shrink_iters: prop.shrink_iters(),
        // (shrinking a failure of an expensive case - heavy pattern sets, 100 000-line inputs - is cut off after four minutes)
        max_shrink_time: 240_000,
        max_local_rejects: 1,
        max_global_rejects: 1,
        verbose: 0,
        ..Config::default()
    };
    let mut runner = TestRunner::new(config);
    // three quarters of the tapes have full length (the generator never runs out of choices), the rest a uniform
    // shorter length (the tail of the case is decoded from zeros, i.e. from the simplest alternatives)
    let full = prop.tape_len().max(8);
    let strategy = proptest::prop_oneof![
        1 => proptest::collection::vec(any::<u32>(), 4..full),
        3 => proptest::collection::vec(any::<u32>(), full..=full),
    ];
    let failed = std::cell::Cell::new(false);
    let stats_cell = std::cell::RefCell::new(stats);
    let last_failure: std::cell::RefCell<Option<(P::Case, Failure)>> = std::cell::RefCell::new(None);

    let result = runner.run(&strategy, |words| {
        if !failed.get() && shared.stop.load(Ordering::Relaxed) {
            // another shard has found a failure: finish quickly
            return Ok(());
        }
        let mut tape = Tape::new(&words);
        let case = match catch(|| prop.generate(&mut tape, ctx)) {
            Ok(c) => c,
            Err(msg) => {
                eprintln!("internal error: generator panicked: {}", msg);
                std::process::exit(2);
            }
        };
        shared.progress[shard].fetch_add(1, Ordering::Relaxed);
        if supervised {
            let st = stats_cell.borrow();
            write_slot(&slot, st.evaluations, st.nontrivial.len() as u64, &case);
        }
        let mut obs = Obs::default();
        if tape.exhausted() {
            // the generator wanted more choices than the tape holds: the rest of the case was decoded from zeros
            obs.label("tape-exhausted");
        }
        let result = run_one(prop, &case, ctx, &mut obs);
        if !failed.get() {
            record(&mut stats_cell.borrow_mut(), &case, &obs);
        }
        match result {
            Ok(()) => Ok(()),
            Err(failure) => {
                if survey_mode() {
                    let mut st = stats_cell.borrow_mut();
                    let e = st.survey.entry(failure.signature.clone()).or_insert((0, failure.message.clone()));
                    e.0 += 1;
                    return Ok(());
                }
                if !failed.get() && open_signatures.contains(&failure.signature) {
                    // exclusion leak of a listed finding: counted, search continues
                    *stats_cell.borrow_mut().known_hits.entry(failure.signature.clone()).or_insert(0) += 1;
                    return Ok(());
                }
                failed.set(true);
                shared.stop.store(true, Ordering::Relaxed);
                let sig = failure.signature.clone();
                *last_failure.borrow_mut() = Some((case, failure));
                Err(TestCaseError::fail(sig))
            }
        }
    });

    let stats = stats_cell.into_inner();
    match result {
        Ok(()) => (stats, None),
        Err(TestError::Fail(_, words)) => {
            // re-derive the minimal case and its failure (the last failing call is not necessarily the minimal one)
            let mut tape = Tape::new(&words);
            let case = prop.generate(&mut tape, ctx);
            let mut obs = Obs::default();
            match run_one(prop, &case, ctx, &mut obs) {
                Err(failure) => (stats, Some(FoundFailure { case, failure, shrunk: true })),
                Ok(()) => {
                    // flaky minimal case: fall back to the last failing one seen
                    match last_failure.into_inner() {
                        Some((case, failure)) => (stats, Some(FoundFailure { case, failure, shrunk: false })),
                        None => (stats, None),
                    }
                }
            }
        }
        Err(TestError::Abort(reason)) => {
            eprintln!("internal error: proptest aborted: {}", reason);
            std::process::exit(2);
        }
    }
}

fn record<C: Serialize>(stats: &mut Stats, case: &C, obs: &Obs) {
    stats.evaluations += 1;
    stats.inner += obs.inner;
    stats.unspecified += obs.unspecified;
    stats.excluded += obs.excluded;
    for l in &obs.labels {
        *stats.labels.entry(*l).or_insert(0) += 1;
    }
    if obs.nontrivial {
        let fresh = stats.nontrivial.insert(fingerprint(case));
        if fresh && stats.samples.len() < 3 {
            if let Ok(v) = serde_json::to_value(case) {
                stats.samples.push(v);
            }
        }
    } else if stats.fallback_samples.is_empty() {
        // shown only if the run ends without a single non-trivial case
        if let Ok(v) = serde_json::to_value(case) {
            stats.fallback_samples.push(v);
        }
    }
}

pub fn survey_mode() -> bool {
    static MODE: std::sync::OnceLock<bool> = std::sync::OnceLock::new();
    *MODE.get_or_init(|| std::env::var("VCHECK_SURVEY").is_ok())
}

pub struct RunOutcome {
    pub exit_code: i32,
}

fn scratch_dir() -> PathBuf {
    if let Ok(dir) = std::env::var("VCHECK_SCRATCH") {
        let p = PathBuf::from(dir);
        let _ = std::fs::create_dir_all(&p);
        return p;
    }
    let base = if Path::new("/dev/shm").is_dir() { PathBuf::from("/dev/shm") } else { verif_dir().join("out/scratch") };
    let p = base.join(format!("vcheck-{}", std::process::id()));
    let _ = std::fs::create_dir_all(&p);
    p
}

pub fn env_seed() -> u64 {
    std::env::var("VERIF_SEED").ok().and_then(|s| s.trim().parse::<i64>().ok()).map(|v| v as u64).unwrap_or(20260925)
}

fn switches_for(known: &KnownFindings) -> HashSet<String> {
    known.findings.iter().filter(|f| f.status == "open").filter_map(|f| f.switch.clone()).collect()
}

fn make_ctx(tier: Tier, seed: u64, known: &KnownFindings, scratch: &Path, shard: usize) -> Ctx {
    Ctx { tier, seed, switches: switches_for(known), scratch: scratch.to_path_buf(), shard }
}

fn save_replay<C: Serialize>(id: &str, seed: u64, case: &C, failure: &Failure) -> PathBuf {
    let dir = verif_dir().join("out/replays");
    let _ = std::fs::create_dir_all(&dir);
    let path = dir.join(format!("{}-{}-{:016x}.json", id, seed, fingerprint(case)));
    let doc = serde_json::json!({
        "property": id,
        "signature": failure.signature,
        "message": failure.message,
        "case": case,
    });
    let _ = std::fs::write(&path, serde_json::to_string_pretty(&doc).unwrap());
    path
}

pub fn load_replay<C: DeserializeOwned>(path: &Path) -> Result<C, String> {
    let text = std::fs::read_to_string(path).map_err(|e| format!("cannot read {}: {}", path.display(), e))?;
    let doc: serde_json::Value = serde_json::from_str(&text).map_err(|e| format!("bad json in {}: {}", path.display(), e))?;
    let case = doc.get("case").cloned().unwrap_or(doc);
    serde_json::from_value(case).map_err(|e| format!("bad case in {}: {}", path.display(), e))
}

/// Replays the committed regression cases and the witnesses of known findings.
/// Returns (lines to print, violations, replayed count).
fn replay_tier<P: Property>(prop: &P, ctx: &Ctx, known: &KnownFindings) -> (Vec<String>, Vec<(PathBuf, Failure)>, u64) {
    let id = prop.id();
    let mut lines = Vec::new();
    let mut violations = Vec::new();
    let mut replayed = 0;
    let dir = verif_dir().join("replays").join(id);
    let mut witness_of: BTreeMap<PathBuf, &Finding> = BTreeMap::new();
    for f in &known.findings {
        if f.status == "open" && f.properties.iter().any(|p| p == id) {
            if let Some(w) = &f.witness {
                let p = verif_dir().join(w);
                // a witness is replayed by the property whose directory it lives in
                if p.parent().map(|d| d == dir).unwrap_or(false) {
                    witness_of.insert(p, f);
                }
            }
        }
    }
    let mut files: Vec<PathBuf> = std::fs::read_dir(&dir)
        .map(|rd| rd.filter_map(|e| e.ok()).map(|e| e.path()).filter(|p| p.extension().map(|x| x == "json").unwrap_or(false)).collect())
        .unwrap_or_default();
    files.sort();
    for path in files {
        let case: P::Case = match load_replay(&path) {
            Ok(c) => c,
            Err(e) => {
                eprintln!("{}", e);
                std::process::exit(2);
            }
        };
        replayed += 1;
        let mut obs = Obs::default();
        let result = run_one(prop, &case, ctx, &mut obs);
        match (witness_of.get(&path), result) {
            (Some(f), Err(failure)) => {
                if failure.signature == f.signature {
                    lines.push(format!("KNOWN-FINDING: property={} {}: {}", id, f.id, f.what));
                } else {
                    violations.push((path.clone(), failure));
                }
            }
            (Some(f), Ok(())) => {
                eprintln!("note: witness of open finding {} no longer fails ({}): turn the entry into 'fixed'", f.id, path.display());
            }
            (None, Err(failure)) => violations.push((path.clone(), failure)),
            (None, Ok(())) => {}
        }
    }
    (lines, violations, replayed)
}

pub fn run_search<P: Property>(prop: Arc<P>, tier: Tier) -> i32 {
    let started = Instant::now();
    let id = prop.id();
    let seed = env_seed();
    let known = Arc::new(load_known());
    let scratch = scratch_dir();
    let own_scratch = std::env::var("VCHECK_SCRATCH").is_err();
    let open_signatures: Arc<HashSet<String>> = Arc::new(
        known.findings.iter().filter(|f| f.status == "open" && f.properties.iter().any(|p| p == id)).map(|f| f.signature.clone()).collect(),
    );

    let mut out_lines: Vec<String> = Vec::new();
    let mut violation: Option<(PathBuf, Failure)> = None;

    // replay tier
    let ctx0 = make_ctx(tier, seed, &known, &scratch, 0);
    let (lines, replay_violations, replayed) = replay_tier(&*prop, &ctx0, &known);
    out_lines.extend(lines);
    if let Some((path, failure)) = replay_violations.into_iter().next() {
        violation = Some((path, failure));
    }

    let mut total = Stats::default();
    let mut known_leaks: BTreeMap<String, u64> = BTreeMap::new();

    if violation.is_none() {
        let mut attempt = 0u64;
        loop {
            let shared = Arc::new(Shared {
                stop: AtomicBool::new(false),
                progress: (0..SHARDS).map(|_| AtomicU64::new(0)).collect(),
                done: (0..SHARDS).map(|_| AtomicBool::new(false)).collect(),
            });
            let cases_total = prop.cases(tier);
            let per_shard = ((cases_total + SHARDS as u64 - 1) / SHARDS as u64) as u32;
            let results: Arc<Mutex<Vec<(usize, Stats, Option<FoundFailure<P::Case>>)>>> = Arc::new(Mutex::new(Vec::new()));
            let mut handles = Vec::new();
            for shard in 0..SHARDS {
                let prop = prop.clone();
                let known = known.clone();
                let shared = shared.clone();
                let scratch = scratch.clone();
                let results = results.clone();
                let open_signatures = open_signatures.clone();
                let shard_seed = seed.wrapping_mul(1_000_003).wrapping_add(attempt.wrapping_mul(7919)).wrapping_mul(SHARDS as u64).wrapping_add(shard as u64);
                let handle = std::thread::Builder::new()
                    .name(format!("shard-{}", shard))
                    .stack_size(8 << 20)
                    .spawn(move || {
                        let ctx = make_ctx(tier, seed, &known, &scratch, shard);
                        let (stats, found) = shard_search(&*prop, &ctx, &shared, &open_signatures, per_shard, shard_seed);
                        shared.done[shard].store(true, Ordering::Relaxed);
                        results.lock().unwrap().push((shard, stats, found));
                    })
                    .expect("spawn shard");
                handles.push(handle);
            }

            // watchdog: a shard that makes no progress for a long time is a hang
            let limit = Duration::from_secs(if tier == Tier::Quick { 90 } else { 300 });
            let mut last: Vec<(u64, Instant)> = (0..SHARDS).map(|_| (0, Instant::now())).collect();
            loop {
                std::thread::sleep(Duration::from_millis(200));
                let mut all_done = true;
                for s in 0..SHARDS {
                    if shared.done[s].load(Ordering::Relaxed) {
                        continue;
                    }
                    all_done = false;
                    let p = shared.progress[s].load(Ordering::Relaxed);
                    if p != last[s].0 {
                        last[s] = (p, Instant::now());
                    } else if last[s].1.elapsed() > limit {
                        eprintln!("watchdog: shard {} made no progress for {:?} (case in {}/slot-{}.json)", s, limit, scratch.display(), s);
                        // exit code 3: the supervisor (if any) re-judges the case; otherwise inconclusive
                        std::process::exit(3);
                    }
                }
                if all_done {
                    break;
                }
            }
            for h in handles {
                let _ = h.join();
            }

            let mut results = std::mem::take(&mut *results.lock().unwrap());
            results.sort_by_key(|r| r.0);
            let mut best: Option<FoundFailure<P::Case>> = None;
            for (_, stats, found) in results {
                total.merge(stats);
                if let Some(f) = found {
                    let size = serde_json::to_string(&f.case).map(|s| s.len()).unwrap_or(usize::MAX);
                    let better = match &best {
                        None => true,
                        Some(b) => {
                            let bsize = serde_json::to_string(&b.case).map(|s| s.len()).unwrap_or(usize::MAX);
                            (f.shrunk && !b.shrunk) || (f.shrunk == b.shrunk && size < bsize)
                        }
                    };
                    if better {
                        best = Some(f);
                    }
                }
            }
            match best {
                None => break,
                Some(found) => {
                    if open_signatures.contains(&found.failure.signature) && attempt < 3 {
                        // the shrunk case is a listed finding (exclusion leak): report it as such, search on
                        *known_leaks.entry(found.failure.signature.clone()).or_insert(0) += 1;
                        attempt += 1;
                        continue;
                    }
                    let path = save_replay(id, seed, &found.case, &found.failure);
                    violation = Some((path, found.failure));
                    break;
                }
            }
        }
    }

    for (sig, n) in total.known_hits.iter().chain(known_leaks.iter()) {
        if let Some(f) = known.findings.iter().find(|f| f.status == "open" && &f.signature == sig && f.properties.iter().any(|p| p == id)) {
            let line = format!("KNOWN-FINDING: property={} {}: {}", id, f.id, f.what);
            if !out_lines.contains(&line) {
                out_lines.push(line);
            }
            eprintln!("note: {} generated case(s) hit listed finding {}", n, f.id);
        }
    }

    // generator health
    let mut degenerate = Vec::new();
    if violation.is_none() && total.evaluations > 0 {
        for (label, floor) in prop.label_floors() {
            let n = total.labels.get(label).copied().unwrap_or(0);
            if (n as f64) < floor * total.evaluations as f64 {
                degenerate.push(format!("label '{}' occurs {} times in {} cases (floor {})", label, n, total.evaluations, floor));
            }
        }
    }

    if survey_mode() {
        eprintln!("survey of {}: {} failing signatures", id, total.survey.len());
        for (sig, (n, msg)) in &total.survey {
            eprintln!("  {:>8}  {}\n            e.g. {}", n, sig, msg.lines().next().unwrap_or(""));
        }
        if own_scratch {
            let _ = std::fs::remove_dir_all(&scratch);
        }
        return 2;
    }

    let wall = started.elapsed().as_secs_f64();
    write_evidence(&*prop, tier, seed, &total, replayed, violation.as_ref().map(|_| 1).unwrap_or(0), wall, &known);

    if own_scratch {
        let _ = std::fs::remove_dir_all(&scratch);
    }

    let stdout = std::io::stdout();
    let mut so = stdout.lock();
    for l in &out_lines {
        let _ = writeln!(so, "{}", l);
    }
    if let Some((path, failure)) = violation {
        let _ = writeln!(so, "VIOLATION property={} replay={}", id, path.display());
        eprintln!("  signature: {}\n  {}", failure.signature, failure.message);
        return 1;
    }
    if !degenerate.is_empty() {
        for d in degenerate {
            eprintln!("generator degenerate: {}", d);
        }
        return 2;
    }
    crate::eval::dump_unspec_survey();
    let _ = writeln!(
        so,
        "OK property={} tier={} seed={} cases={} enumerated={} inner={} nontrivial={} wall={:.1}s",
        id,
        tier.name(),
        seed,
        total.evaluations,
        total.enumerated,
        total.inner,
        total.nontrivial.len(),
        wall
    );
    0
}

fn write_evidence<P: Property>(prop: &P, tier: Tier, seed: u64, total: &Stats, replayed: u64, violations: u64, wall: f64, known: &KnownFindings) {
    let id = prop.id();
    let labels: serde_json::Map<String, serde_json::Value> = total.labels.iter().map(|(k, v)| (k.to_string(), serde_json::json!(v))).collect();
    let open: Vec<String> = known.findings.iter().filter(|f| f.status == "open" && f.properties.iter().any(|p| p == id)).map(|f| f.id.clone()).collect();
    let mut coverage = serde_json::json!({
        "evaluations": total.evaluations,
        "distinct_nontrivial": total.nontrivial.len(),
        "rule": prop.rule(),
        "samples": if total.samples.is_empty() { &total.fallback_samples } else { &total.samples },
        "inner_evaluations": total.inner,
        "labels": labels,
        "excluded_by_construction": total.excluded,
        "unspecified_skipped": total.unspecified,
        "regression_cases_replayed": replayed,
        "open_known_findings": open,
        "shards": SHARDS,
    });
    if let Some(desc) = prop.enum_description() {
        coverage["exhaustive_subspace"] = serde_json::json!({ "description": desc, "cases": total.enumerated });
    }
    let doc = serde_json::json!({
        "property_id": id,
        "tier": tier.name(),
        "seed": seed as i64,
        "level": "exploration",
        "coverage": coverage,
        "assumptions": prop.assumptions(),
        "wall_s": (wall * 100.0).round() / 100.0,
        "violations": violations,
    });
    let (dir, name) = match std::env::var("VCHECK_PART") {
        Ok(part) => (verif_dir().join("out/parts"), format!("{}-{}.json", id, part)),
        Err(_) => (verif_dir().join("evidence"), format!("{}.json", id)),
    };
    let _ = std::fs::create_dir_all(&dir);
    let path = dir.join(name);
    if let Err(e) = std::fs::write(&path, serde_json::to_string_pretty(&doc).unwrap()) {
        eprintln!("cannot write {}: {}", path.display(), e);
    }
}

/// Strict replay of one file: no known-finding tolerance.
pub fn run_replay<P: Property>(prop: Arc<P>, path: &Path) -> i32 {
    let known = load_known();
    let scratch = scratch_dir();
    let ctx = make_ctx(Tier::Quick, env_seed(), &known, &scratch, 0);
    let case: P::Case = match load_replay(path) {
        Ok(c) => c,
        Err(e) => {
            eprintln!("{}", e);
            return 2;
        }
    };
    let mut obs = Obs::default();
    let result = run_one(&*prop, &case, &ctx, &mut obs);
    if std::env::var("VCHECK_SCRATCH").is_err() {
        let _ = std::fs::remove_dir_all(&scratch);
    }
    match result {
        Ok(()) => {
            println!("REPLAY-PASS property={} file={}", prop.id(), path.display());
            0
        }
        Err(failure) => {
            println!("VIOLATION property={} replay={}", prop.id(), path.display());
            eprintln!("  signature: {}\n  {}", failure.signature, failure.message);
            1
        }
    }
}

// ---------------------------------------------------------------------------------------------
// supervision (parent side): the search runs in a child so that aborts and hangs are observable

fn wait_with_timeout(child: &mut std::process::Child, timeout: Duration) -> Option<std::process::ExitStatus> {
    let start = Instant::now();
    loop {
        match child.try_wait() {
            Ok(Some(status)) => return Some(status),
            Ok(None) => {
                if start.elapsed() > timeout {
                    let _ = child.kill();
                    let _ = child.wait();
                    return None;
                }
                std::thread::sleep(Duration::from_millis(20));
            }
            Err(_) => return None,
        }
    }
}

/// Runs this binary again with `--child`; judges a death by signal / hang by re-running the slot cases alone.
pub fn supervise(id: &str, args: &[String], tier: Tier) -> i32 {
    use std::os::unix::process::ExitStatusExt;
    let started = Instant::now();
    let exe = std::env::current_exe().expect("current_exe");
    let scratch = scratch_dir();
    let mut child = std::process::Command::new(&exe)
        .args(args)
        .arg("--child")
        .env("VCHECK_SCRATCH", &scratch)
        .spawn()
        .expect("spawn child");
    let status = child.wait().expect("wait child");
    let code = status.code();
    if let Some(c) = code {
        if c == 0 || c == 1 || c == 2 {
            let _ = std::fs::remove_dir_all(&scratch);
            return c;
        }
    }
    eprintln!("supervisor: child ended abnormally (code {:?}, signal {:?}); re-judging the cases in flight", code, status.signal());
    let mut evaluations = 0u64;
    let mut nontrivial = 0u64;
    let mut verdict = 2;
    let mut slots: Vec<PathBuf> = (0..SHARDS).map(|s| scratch.join(format!("slot-{}.json", s))).filter(|p| p.exists()).collect();
    slots.sort();
    let mut found: Option<(PathBuf, String)> = None;
    for slot in &slots {
        if let Ok(text) = std::fs::read_to_string(slot) {
            if let Ok(doc) = serde_json::from_str::<serde_json::Value>(&text) {
                evaluations += doc["n"].as_u64().unwrap_or(0);
                nontrivial += doc["nt"].as_u64().unwrap_or(0);
            }
        }
        if found.is_some() {
            continue;
        }
        let mut bad = 0;
        let mut how = String::new();
        for _ in 0..2 {
            let mut c = std::process::Command::new(&exe)
                .arg(id)
                .arg("--replay")
                .arg(slot)
                .arg("--child")
                .env("VCHECK_SCRATCH", &scratch)
                .stdout(std::process::Stdio::null())
                .spawn()
                .expect("spawn replay child");
            match wait_with_timeout(&mut c, Duration::from_secs(60)) {
                None => {
                    bad += 1;
                    how = "hang (no result within 60 s, twice, in isolation)".to_string();
                }
                Some(st) => {
                    if st.code().is_none() {
                        bad += 1;
                        how = format!("abort by signal {:?}", st.signal());
                    } else if st.code() == Some(1) {
                        bad += 1;
                        how = "failure".to_string();
                    }
                }
            }
        }
        if bad == 2 {
            found = Some((slot.clone(), how));
        }
    }
    if let Some((slot, how)) = found {
        let dir = verif_dir().join("out/replays");
        let _ = std::fs::create_dir_all(&dir);
        let dest = dir.join(format!("{}-{}-crash-{}.json", id, env_seed(), std::process::id()));
        let _ = std::fs::copy(&slot, &dest);
        println!("VIOLATION property={} replay={}", id, dest.display());
        eprintln!("  reproducible {}", how);
        verdict = 1;
        let sample: serde_json::Value = std::fs::read_to_string(&slot).ok().and_then(|t| serde_json::from_str(&t).ok()).unwrap_or(serde_json::Value::Null);
        let doc = serde_json::json!({
            "property_id": id,
            "tier": tier.name(),
            "seed": env_seed() as i64,
            "level": "exploration",
            "coverage": {
                "evaluations": evaluations.max(1),
                "distinct_nontrivial": nontrivial,
                "rule": "run ended by a crash of the search process; counts are those reached by the shards before the crash",
                "samples": [sample["case"].clone()],
            },
            "assumptions": [],
            "wall_s": started.elapsed().as_secs_f64(),
            "violations": 1,
        });
        let _ = std::fs::write(verif_dir().join("evidence").join(format!("{}.json", id)), serde_json::to_string_pretty(&doc).unwrap());
    } else {
        eprintln!("supervisor: the abnormal end did not reproduce on any case in flight: inconclusive");
    }
    let _ = std::fs::remove_dir_all(&scratch);
    verdict
}

/// Merges the per-part evidence files (out/parts/<id>-*.json) of a multi-process run into evidence/<id>.json.
pub fn merge_parts(id: &str, tier: Tier, wall: f64, violated: bool) {
    let dir = verif_dir().join("out/parts");
    let mut evaluations = 0u64;
    let mut nontrivial = 0u64;
    let mut inner = 0u64;
    let mut unspecified = 0u64;
    let mut samples: Vec<serde_json::Value> = Vec::new();
    let mut labels: BTreeMap<String, u64> = BTreeMap::new();
    let mut parts: Vec<serde_json::Value> = Vec::new();
    let mut rule = String::new();
    let mut assumptions = serde_json::json!([]);
    if let Ok(rd) = std::fs::read_dir(&dir) {
        let mut files: Vec<PathBuf> = rd.filter_map(|e| e.ok()).map(|e| e.path()).filter(|p| p.file_name().map(|n| n.to_string_lossy().starts_with(&format!("{}-", id))).unwrap_or(false)).collect();
        files.sort();
        for f in files {
            if let Some(doc) = std::fs::read_to_string(&f).ok().and_then(|t| serde_json::from_str::<serde_json::Value>(&t).ok()) {
                let c = &doc["coverage"];
                evaluations += c["evaluations"].as_u64().unwrap_or(0);
                nontrivial += c["distinct_nontrivial"].as_u64().unwrap_or(0);
                inner += c["inner_evaluations"].as_u64().unwrap_or(0);
                unspecified += c["unspecified_skipped"].as_u64().unwrap_or(0);
                if let Some(s) = c["samples"].as_array() {
                    samples.extend(s.iter().take(1).cloned());
                }
                if let Some(l) = c["labels"].as_object() {
                    for (k, v) in l {
                        *labels.entry(k.clone()).or_insert(0) += v.as_u64().unwrap_or(0);
                    }
                }
                rule = c["rule"].as_str().unwrap_or("").to_string();
                assumptions = doc["assumptions"].clone();
                parts.push(serde_json::json!({"part": f.file_name().map(|n| n.to_string_lossy().to_string()), "evaluations": c["evaluations"], "distinct_nontrivial": c["distinct_nontrivial"], "wall_s": doc["wall_s"], "violations": doc["violations"]}));
            }
            let _ = std::fs::remove_file(&f);
        }
    }
    let doc = serde_json::json!({
        "property_id": id,
        "tier": tier.name(),
        "seed": env_seed() as i64,
        "level": "exploration",
        "coverage": {
            "evaluations": evaluations,
            "distinct_nontrivial": nontrivial,
            "rule": rule,
            "samples": samples,
            "inner_evaluations": inner,
            "labels": labels,
            "unspecified_skipped": unspecified,
            "parts": parts,
            "note": "distinct_nontrivial is the sum over the per-zone processes (the same case under another TZ is a different execution)",
        },
        "assumptions": assumptions,
        "wall_s": (wall * 100.0).round() / 100.0,
        "violations": if violated { 1 } else { 0 },
    });
    // a crash judged by the supervisor has already written its own evidence
    if !(violated && parts.is_empty()) {
        let _ = std::fs::write(verif_dir().join("evidence").join(format!("{}.json", id)), serde_json::to_string_pretty(&doc).unwrap());
    }
}
