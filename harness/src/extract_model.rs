//! Reference extraction model (C01 regex/split, C02 JSON path): what row a definition yields for a line.
//! Trusted: the `regex` crate as the definition of "leftmost match" / split, the harness's JSON reader
//! for the document tree (path walk and typing are the model's own), chrono for calendar validity.

use std::collections::HashMap;

use crate::eval::{make_ts, parse_literal};
use crate::sql::E;
use crate::stmt::*;
use crate::value::*;

#[derive(Clone, Debug, PartialEq)]
pub enum Cell {
    Val(V),
    /// any of these
    OneOf(Vec<V>),
    /// REAL read from a JSON number: within a few ULP
    RealNear(f64),
    /// not judged
    Any,
}

impl Cell {
    pub fn is_null(&self) -> Option<bool> {
        match self {
            Cell::Val(v) => Some(v.is_null()),
            Cell::OneOf(vs) => {
                if vs.iter().all(|v| v.is_null()) {
                    Some(true)
                } else if vs.iter().all(|v| !v.is_null()) {
                    Some(false)
                } else {
                    None
                }
            }
            Cell::RealNear(_) => Some(false),
            Cell::Any => None,
        }
    }
}

#[derive(Debug)]
pub enum ModelRow {
    Row(Vec<Cell>),
    /// a NOT NULL column is NULL: the line yields no row
    Dropped,
    /// not judged at row level
    Unspec,
}

enum Part<'a> {
    NoMatch,
    NoGroup,
    Text(&'a str),
}

pub struct Compiled {
    /// name -> (regex, split?)
    patterns: HashMap<String, (regex::Regex, bool)>,
    pub columns: Vec<(Source, String, String, Option<Modifier>)>,
    /// further modifiers per column, set through the public ColumnOptions fields (the grammar takes one modifier per column)
    pub extra: Vec<Vec<Modifier>>,
    has_json: bool,
}

pub fn compile(def: &TableDef) -> Option<Compiled> {
    let mut patterns = HashMap::new();
    let mut columns = Vec::new();
    let mut n_patterns = 0usize;
    let mut has_json = false;
    for e in &def.entries {
        match e {
            Entry::Pattern { name, mode, regex } => {
                let re = regex::Regex::new(regex).ok()?;
                patterns.insert(name.clone(), (re, mode.as_deref() == Some("split")));
                n_patterns += 1;
            }
            Entry::Column { source, name, ty, modifier } => {
                let mut source = source.clone();
                if let Source::Inline(regex) = &source {
                    let pname = format!("_pattern{}", n_patterns);
                    patterns.insert(pname.clone(), (regex::Regex::new(regex).ok()?, false));
                    n_patterns += 1;
                    source = Source::Groups(vec![(pname, 1)]);
                }
                if matches!(source, Source::Json(_)) {
                    has_json = true;
                }
                columns.push((source, name.clone(), ty.to_ascii_lowercase(), modifier.clone()));
            }
        }
    }
    let extra = vec![Vec::new(); columns.len()];
    Some(Compiled { patterns, columns, extra, has_json })
}

fn default_of(mods: &[&Modifier]) -> V {
    for m in mods {
        match m {
            Modifier::Default(E::Int(i)) => return V::Int(*i),
            Modifier::Default(E::Real(s)) => return V::Real(s.parse().unwrap_or(0.0)),
            Modifier::Default(E::Str(s)) => return V::Text(s.clone()),
            Modifier::Default(E::True) => return V::Bool(true),
            Modifier::Default(E::False) => return V::Bool(false),
            _ => {}
        }
    }
    V::Null
}

/// Sets one option of a real column definition through its public fields.
pub fn set_option(column: &mut sqlgrep::data_model::ColumnDefinition, m: &Modifier) -> bool {
    use sqlgrep::model::{Float, Value};
    match m {
        Modifier::NotNull => column.options.nullable = false,
        Modifier::Trim => column.options.trim = true,
        Modifier::Convert => column.options.convert = true,
        Modifier::Microseconds => column.options.microseconds = true,
        Modifier::Default(e) => {
            column.options.default_value = Some(match e {
                E::Int(i) => Value::Int(*i),
                E::Real(s) => Value::Float(Float(s.parse().unwrap_or(0.0))),
                E::Str(s) => Value::String(s.clone()),
                E::True => Value::Bool(true),
                E::False => Value::Bool(false),
                _ => return false,
            })
        }
    }
    true
}

/// Sets further options of a column through the public fields of the real definition and records them for the model.
/// (Only combinations whose meaning follows from the single modifiers: NOT NULL, TRIM, CONVERT and a DEFAULT of the column's own type.)
pub fn apply_extra(def: &mut sqlgrep::data_model::TableDefinition, compiled: &mut Compiled, extras: &[(usize, Modifier)]) {
    for (ci, m) in extras {
        let (Some(column), Some(slot)) = (def.columns.get_mut(*ci), compiled.extra.get_mut(*ci)) else { continue };
        if compiled.columns[*ci].3.as_ref().map(std::mem::discriminant) == Some(std::mem::discriminant(m)) || slot.iter().any(|x| std::mem::discriminant(x) == std::mem::discriminant(m)) {
            continue;
        }
        if !set_option(column, m) {
            continue;
        }
        slot.push(m.clone());
    }
}

fn month_name(text: &str) -> Option<i64> {
    match text.to_lowercase().as_str() {
        "jan" => Some(1),
        "feb" => Some(2),
        "mar" => Some(3),
        "apr" => Some(4),
        "may" => Some(5),
        "jun" | "june" => Some(6),
        "jul" | "july" => Some(7),
        "aug" => Some(8),
        "sep" | "sept" => Some(9),
        "oct" => Some(10),
        "nov" => Some(11),
        "dec" => Some(12),
        _ => None,
    }
}

struct LineCtx<'a> {
    line: &'a str,
    captures: HashMap<&'a str, Option<regex::Captures<'a>>>,
    splits: HashMap<&'a str, Vec<&'a str>>,
    json: Option<J>,
}

impl<'a> LineCtx<'a> {
    fn part(&self, pattern: &str, index: u64) -> Part<'a> {
        if let Some(fields) = self.splits.get(pattern) {
            // index 0 = whole line, then the fields
            if index == 0 {
                return Part::Text(self.line);
            }
            return match fields.get(index as usize - 1) {
                Some(f) => Part::Text(f),
                None => Part::NoGroup,
            };
        }
        match self.captures.get(pattern) {
            Some(Some(caps)) => match caps.get(index as usize) {
                Some(m) => Part::Text(m.as_str()),
                None => Part::NoGroup,
            },
            // unknown pattern name behaves like a pattern that did not match
            _ => Part::NoMatch,
        }
    }
}

fn single(ctx: &LineCtx, pattern: &str, index: u64, ty: &str, default: V) -> Cell {
    let part = ctx.part(pattern, index);
    if ty == "boolean" {
        return match part {
            Part::NoMatch => Cell::Val(default),
            Part::NoGroup => Cell::Val(V::Bool(false)),
            Part::Text(_) => Cell::Val(V::Bool(true)),
        };
    }
    match part {
        Part::NoMatch | Part::NoGroup => Cell::Val(default),
        Part::Text(text) => {
            if ty.ends_with("[]") {
                // a single group for an array column: not fixed by the documents
                return Cell::Any;
            }
            match parse_literal(ty, text) {
                Ok(Some(v)) => Cell::Val(v),
                Ok(None) => Cell::Val(V::Null),
                Err(()) => Cell::Any,
            }
        }
    }
}

fn timestamp(ctx: &LineCtx, refs: &[(String, u64)], microseconds: bool, default: V) -> Cell {
    // year, month, day, hour, minute, second, fraction
    let mut parts: [Option<i64>; 7] = [None; 7];
    let failure = Cell::OneOf(if default.is_null() { vec![V::Null] } else { vec![V::Null, default.clone()] });
    let mut absent_part = false;
    for (i, (p, g)) in refs.iter().enumerate().take(7) {
        match ctx.part(p, *g) {
            Part::NoMatch | Part::NoGroup => {
                absent_part = true;
            }
            Part::Text(text) => {
                let digits = text.strip_prefix(['+', '-']).unwrap_or(text);
                let is_int = !digits.is_empty() && digits.bytes().all(|b| b.is_ascii_digit());
                if is_int {
                    match text.parse::<i64>() {
                        Ok(v) => parts[i] = Some(v),
                        Err(_) => return failure, // an integer beyond 64 bits is out of range for any part
                    }
                } else if i == 1 {
                    match month_name(text) {
                        Some(m) => parts[i] = Some(m),
                        None => return failure,
                    }
                } else {
                    return failure;
                }
            }
        }
    }
    // (year, month, day, hour, minute, second, fraction: groups listed after the seventh take no part)
    if absent_part {
        // a listed part whose group did not take part: NULL / DEFAULT or the part's documented default are all acceptable
        return Cell::Any;
    }
    let y = parts[0].unwrap_or(0);
    let mo = parts[1].unwrap_or(1);
    let d = parts[2].unwrap_or(1);
    let h = parts[3].unwrap_or(0);
    let mi = parts[4].unwrap_or(0);
    let s = parts[5].unwrap_or(0);
    let frac = parts[6].unwrap_or(0);
    let limit = if microseconds { 1_000_000 } else { 1_000 };
    // (a fraction of 1000-1999 ms at second 59 is not a leap second notation: it is out of range like anywhere else)
    if frac < 0 || frac >= limit {
        return failure;
    }
    let us = if microseconds { frac } else { frac * 1000 };
    match make_ts(y, mo, d, h, mi, s, us) {
        Some(m) => Cell::Val(V::Ts(m)),
        None => failure,
    }
}

fn json_walk<'j>(doc: &'j J, path: &[JsonPart]) -> Vec<Option<&'j J>> {
    // all values the path can address (several when a key is duplicated: either occurrence is acceptable)
    let mut current: Vec<Option<&J>> = vec![Some(doc)];
    for part in path {
        let mut next: Vec<Option<&J>> = Vec::new();
        for c in current {
            match (c, part) {
                (Some(J::Obj(items)), JsonPart::Field(name)) => {
                    let hits: Vec<&J> = items.iter().filter(|(k, _)| k == name).map(|(_, v)| v).collect();
                    if hits.is_empty() {
                        next.push(None);
                    } else {
                        next.extend(hits.into_iter().map(Some));
                    }
                }
                (Some(J::Arr(items)), JsonPart::Index(i)) => next.push(items.get(*i as usize)),
                _ => next.push(None),
            }
        }
        current = next;
    }
    current
}

fn json_typed(ty: &str, value: &J, convert: bool) -> Cell {
    if convert {
        return match value {
            J::Str(s) => {
                if ty.ends_with("[]") {
                    return Cell::Val(V::Null);
                }
                match parse_literal(ty, s) {
                    Ok(Some(v)) => Cell::Val(v),
                    Ok(None) => Cell::Val(V::Null),
                    Err(()) => Cell::Any,
                }
            }
            _ => Cell::Val(V::Null),
        };
    }
    if let Some(elem) = ty.strip_suffix("[]") {
        return match value {
            J::Arr(items) => {
                let mut out = Vec::new();
                for it in items {
                    match json_typed(elem, it, false) {
                        Cell::Val(v) => out.push(v),
                        // element-level gray areas make the whole array unjudged
                        _ => return Cell::Any,
                    }
                }
                Cell::Val(V::Array(out))
            }
            _ => Cell::Val(V::Null),
        };
    }
    match (ty, value) {
        ("int", J::Num(text)) => {
            if J::is_integer_literal(text) {
                match text.parse::<i64>() {
                    Ok(i) => Cell::Val(V::Int(i)),
                    Err(_) => Cell::Val(V::Null),
                }
            } else {
                // 5.0, 1e2: integral values written as reals - not fixed whether they are integers
                match text.parse::<f64>() {
                    Ok(f) if f == f.trunc() && f.abs() < 1e18 => Cell::Any,
                    _ => Cell::Val(V::Null),
                }
            }
        }
        ("real", J::Num(text)) => match text.parse::<f64>() {
            Ok(f) if f.is_finite() => Cell::RealNear(f),
            _ => Cell::Any,
        },
        ("text", J::Str(s)) => Cell::Val(V::Text(s.clone())),
        ("boolean", J::Bool(b)) => Cell::Val(V::Bool(*b)),
        // TIMESTAMP / INTERVAL without CONVERT, and every type mismatch (JSON null included)
        _ => Cell::Val(V::Null),
    }
}

fn has_overflowing_number(j: &J) -> bool {
    match j {
        J::Num(t) => t.parse::<f64>().map(|f| !f.is_finite()).unwrap_or(true),
        J::Arr(items) => items.iter().any(has_overflowing_number),
        J::Obj(items) => items.iter().any(|(_, v)| has_overflowing_number(v)),
        _ => false,
    }
}

pub fn model_extract(c: &Compiled, line: &str) -> ModelRow {
    let mut captures = HashMap::new();
    let mut splits = HashMap::new();
    for (name, (re, split)) in &c.patterns {
        if *split {
            splits.insert(name.as_str(), re.split(line).collect::<Vec<_>>());
        } else {
            captures.insert(name.as_str(), re.captures(line));
        }
    }
    let json_gray = false;
    let json = if c.has_json {
        match parse_json(line) {
            Ok(j) => {
                // (a number beyond f64 somewhere in the document does not make the document invalid: "numbers beyond i64/f64"
                // are wrong-typed leaves for the column that addresses them and nothing at all for the other columns)
                let _ = has_overflowing_number(&j);
                Some(j)
            }
            Err(_) => None,
        }
    } else {
        None
    };
    let ctx = LineCtx { line, captures, splits, json };
    let mut cells = Vec::new();
    for (ci, (source, _name, ty, modifier)) in c.columns.iter().enumerate() {
        let mods: Vec<&Modifier> = modifier.iter().chain(c.extra[ci].iter()).collect();
        let default = default_of(&mods);
        let mut cell = match source {
            // (an array column with one listed group is an array of one element)
            Source::Groups(refs) if refs.len() == 1 && !ty.ends_with("[]") => single(&ctx, &refs[0].0, refs[0].1, ty, default),
            Source::Groups(refs) => {
                if let Some(elem) = ty.strip_suffix("[]") {
                    let mut elems = Vec::new();
                    let mut any = false;
                    for (p, g) in refs {
                        match single(&ctx, p, *g, elem, V::Null) {
                            Cell::Val(v) => elems.push(v),
                            _ => any = true,
                        }
                    }
                    if any {
                        Cell::Any
                    } else if elems.iter().all(|v| v.is_null()) {
                        Cell::Val(default)
                    } else {
                        Cell::Val(V::Array(elems))
                    }
                } else if ty == "timestamp" {
                    timestamp(&ctx, refs, mods.iter().any(|m| matches!(m, Modifier::Microseconds)), default)
                } else {
                    // several groups for a scalar column: not documented
                    Cell::Any
                }
            }
            Source::Inline(_) => Cell::Any,
            Source::Json(path) => {
                if json_gray {
                    Cell::Any
                } else {
                    match &ctx.json {
                        None => Cell::Val(default),
                        Some(doc) => {
                            let hits = json_walk(doc, path);
                            let convert = mods.iter().any(|m| matches!(m, Modifier::Convert));
                            let mut options: Vec<Cell> = hits
                                .into_iter()
                                .map(|h| match h {
                                    None => Cell::Val(default.clone()),
                                    Some(v) => json_typed(ty, v, convert),
                                })
                                .collect();
                            if options.len() == 1 {
                                options.pop().unwrap()
                            } else if options.iter().all(|o| matches!(o, Cell::Val(_))) {
                                Cell::OneOf(options.into_iter().map(|o| if let Cell::Val(v) = o { v } else { V::Null }).collect())
                            } else {
                                Cell::Any
                            }
                        }
                    }
                }
            }
        };
        if mods.iter().any(|m| matches!(m, Modifier::Trim)) {
            cell = match cell {
                Cell::Val(V::Text(s)) => Cell::Val(V::Text(s.trim().to_string())),
                Cell::OneOf(vs) => Cell::OneOf(vs.into_iter().map(|v| if let V::Text(s) = v { V::Text(s.trim().to_string()) } else { v }).collect()),
                other => other,
            };
        }
        if mods.iter().any(|m| matches!(m, Modifier::NotNull)) {
            match cell.is_null() {
                Some(true) => return ModelRow::Dropped,
                Some(false) => {}
                None => return ModelRow::Unspec,
            }
        }
        cells.push(cell);
    }
    ModelRow::Row(cells)
}

pub fn cell_accepts(cell: &Cell, got: &V) -> bool {
    let same = |a: &V, b: &V| match (a, b) {
        (V::Real(x), V::Real(y)) => x.to_bits() == y.to_bits() || (x.is_nan() && y.is_nan()),
        _ => a == b,
    };
    match cell {
        Cell::Any => true,
        Cell::Val(v) => same(v, got),
        Cell::OneOf(vs) => vs.iter().any(|v| same(v, got)),
        Cell::RealNear(f) => match got {
            // the correctly rounded value of the number's text (what reading the same characters from a regex group gives)
            V::Real(g) => g == f || (g.is_nan() && f.is_nan()),
            _ => false,
        },
    }
}

/// Is the line admitted (becomes a row) according to the model? None = not judged.
pub fn model_admitted(row: &ModelRow) -> Option<bool> {
    match row {
        ModelRow::Dropped => Some(false),
        ModelRow::Unspec => None,
        ModelRow::Row(cells) => {
            let mut unknown = false;
            for c in cells {
                match c.is_null() {
                    Some(false) => return Some(true),
                    Some(true) => {}
                    None => unknown = true,
                }
            }
            if unknown {
                None
            } else {
                Some(false)
            }
        }
    }
}
