//! Generators of syntactically valid statements (for the parser-level properties C14, C20) and layout variants.

use crate::props::c13::gen_expr;
use crate::run::Ctx;
use crate::sql::*;
use crate::stmt::*;
use crate::tape::Tape;

pub const STRING_POOL: [&str; 12] = ["a", "SELECT  x", "-- no comment", "it's", "back\\slash", "Tab\there", "ÅÄÖ €", "x;y", "where", "", "two\nlines", "q''q \\' e"];
pub const REGEX_POOL: [&str; 10] = [
    "([0-9]+)",
    "(\\d+) (\\w+)",
    "it's (.*)",
    "a\\\\b(x)?",
    "^(?:GET|POST) (\\S+)",
    "([a-z]+)=([0-9.]+)",
    "--(.+)--",
    "(?i)select  (x)",
    ";",
    "\\s+",
];
const TABLES: [&str; 3] = ["t", "logs", "Conn2"];
const COLNAMES: [&str; 6] = ["x", "y", "z", "a", "b", "ts"];
const TYPES: [&str; 9] = ["INT", "REAL", "TEXT", "BOOLEAN", "TIMESTAMP", "INTERVAL", "INT[]", "TEXT[]", "REAL[]"];

fn gen_agg(t: &mut Tape, ctx: &Ctx) -> E {
    let mut ex = 0;
    let arg = |t: &mut Tape, ex: &mut u64| if t.chance(1, 4) { gen_expr(t, 2, ctx, ex) } else { E::col(*t.pick(&COLNAMES)) };
    match t.draw(14) {
        0 => E::Agg("COUNT".into(), false, vec![]),
        1 => E::Agg("COUNT".into(), false, vec![E::Star]),
        2 => E::Agg("COUNT".into(), false, vec![E::col(*t.pick(&COLNAMES))]),
        3 => E::Agg("COUNT".into(), true, vec![E::col(*t.pick(&COLNAMES))]),
        4 => E::Agg("SUM".into(), false, vec![arg(t, &mut ex)]),
        5 => E::Agg("MIN".into(), false, vec![arg(t, &mut ex)]),
        6 => E::Agg("MAX".into(), false, vec![arg(t, &mut ex)]),
        7 => E::Agg("AVG".into(), false, vec![arg(t, &mut ex)]),
        8 => E::Agg("STDDEV".into(), false, vec![arg(t, &mut ex)]),
        9 => E::Agg("VARIANCE".into(), false, vec![arg(t, &mut ex)]),
        10 => E::Agg("PERCENTILE".into(), false, vec![arg(t, &mut ex), E::Real(format!("0.{}", t.range(0, 9)))]),
        11 => E::Agg(["BOOL_AND", "BOOL_OR"][t.draw(2)].into(), false, vec![arg(t, &mut ex)]),
        12 => E::Agg("ARRAY_AGG".into(), false, vec![arg(t, &mut ex)]),
        _ => E::Agg("STRING_AGG".into(), false, vec![arg(t, &mut ex), E::Str(t.pick(&STRING_POOL).to_string())]),
    }
}

fn with_strings(t: &mut Tape, e: E) -> E {
    // sprinkle pool strings into the expression as comparison operands
    if t.chance(1, 3) {
        E::bin(BinOp::Eq, e, E::Str(t.pick(&STRING_POOL).to_string()))
    } else {
        e
    }
}

pub fn gen_select(t: &mut Tape, ctx: &Ctx) -> Select {
    let mut ex = 0u64;
    let from = t.pick(&TABLES).to_string();
    let aggregate = t.chance(2, 5);
    let mut s = Select::simple(vec![], &from);
    let n_items = 1 + t.draw(3);
    if aggregate {
        let n_keys = t.draw(3);
        for _ in 0..n_keys {
            let key = if t.chance(1, 4) { gen_expr(t, 2, ctx, &mut ex) } else { E::col(*t.pick(&COLNAMES)) };
            s.group_by.push(key.clone());
            if t.chance(3, 4) {
                s.items.push((key, None));
            }
        }
        for i in 0..n_items {
            let agg = gen_agg(t, ctx);
            let item = match t.draw(5) {
                0 => E::bin(*t.pick(&BinOp::ARITH), agg, E::Int(t.range(1, 9))),
                1 => E::bin(*t.pick(&BinOp::ARITH), E::Int(t.range(1, 9)), agg),
                2 => E::call("abs", vec![agg]),
                _ => agg,
            };
            let alias = if t.chance(1, 2) { Some(format!("c{}", i)) } else { None };
            s.items.push((item, alias));
        }
        if t.chance(1, 3) {
            let agg = gen_agg(t, ctx);
            let mut h = E::bin(*t.pick(&BinOp::CMP), agg, E::Int(t.range(0, 5)));
            if !s.group_by.is_empty() && t.chance(1, 2) {
                h = E::bin(if t.chance(1, 2) { BinOp::And } else { BinOp::Or }, h, E::bin(BinOp::Ne, s.group_by[0].clone(), E::Int(0)));
            }
            s.having = Some(h);
        }
    } else {
        if t.chance(1, 8) {
            s.items.push((E::Star, None));
        } else {
            for i in 0..n_items {
                let depth = 1 + t.draw(4);
                let e = gen_expr(t, depth, ctx, &mut ex);
                let e = with_strings(t, e);
                let alias = if t.chance(1, 3) { Some(format!("c{}", i)) } else { None };
                s.items.push((e, alias));
            }
        }
        s.distinct = t.chance(1, 5);
    }
    if t.chance(1, 2) {
        let depth = 1 + t.draw(4);
                let e = gen_expr(t, depth, ctx, &mut ex);
        s.filter = Some(with_strings(t, e));
    }
    if t.chance(1, 4) {
        let other = if from == "u" { "v" } else { "u" }.to_string();
        let l = (from.clone(), t.pick(&COLNAMES).to_string());
        let r = (other.clone(), t.pick(&COLNAMES).to_string());
        let (left, right) = if t.chance(1, 2) { (r, l) } else { (l, r) };
        s.join = Some(Join { outer: t.chance(1, 2), table: other, file: t.pick(&["u.log", "dir/it's.txt", "a b.txt"]).to_string(), left, right });
    }
    if t.chance(1, 4) {
        s.limit = Some(t.range(0, 20) as u64);
    }
    if t.chance(1, 6) {
        s.filename = Some(t.pick(&["in.log", "My File.TXT", "it's"]).to_string());
    }
    s.semicolon = t.chance(1, 2);
    s
}

fn literal_for(t: &mut Tape, ty: &str) -> Option<E> {
    match ty {
        "INT" => Some(E::Int(t.range(0, 99))),
        "REAL" => Some(E::Real(format!("{}.{}", t.range(0, 9), t.range(0, 99)))),
        "TEXT" => Some(E::Str(t.pick(&STRING_POOL).to_string())),
        "BOOLEAN" => Some(if t.chance(1, 2) { E::True } else { E::False }),
        _ => None,
    }
}

pub fn gen_tabledef(t: &mut Tape, name: &str) -> TableDef {
    let mut entries = Vec::new();
    let n_patterns = 1 + t.draw(3);
    let mut pattern_names = Vec::new();
    for i in 0..n_patterns {
        let pname = ["line", "p", "q2"][i].to_string();
        let mode = match t.draw(4) {
            0 => Some("split".to_string()),
            1 => Some("match".to_string()),
            _ => None,
        };
        entries.push(Entry::Pattern { name: pname.clone(), mode, regex: t.pick(&REGEX_POOL).to_string() });
        pattern_names.push(pname);
    }
    let n_cols = 1 + t.draw(6);
    for i in 0..n_cols {
        let ty = t.pick(&TYPES).to_string();
        let source = match t.weighted(&[5, 2, 2, 3]) {
            0 => Source::Groups(vec![(t.pick(&pattern_names).clone(), t.range(0, 9) as u64)]),
            1 => Source::Groups((0..2 + t.draw(5)).map(|_| (t.pick(&pattern_names).clone(), t.range(0, 9) as u64)).collect()),
            2 => Source::Inline(t.pick(&REGEX_POOL).to_string()),
            _ => {
                let n = 1 + t.draw(4);
                Source::Json(
                    (0..n)
                        .map(|k| if k > 0 && t.chance(1, 3) { JsonPart::Index(t.range(0, 5) as u64) } else { JsonPart::Field(t.pick(&["a", "b", "Msg", "ts_1"]).to_string()) })
                        .collect(),
                )
            }
        };
        let modifier = match t.draw(8) {
            0 => Some(Modifier::NotNull),
            1 if ty == "TEXT" => Some(Modifier::Trim),
            2 => Some(Modifier::Convert),
            3 => Some(Modifier::Microseconds),
            4 => literal_for(t, &ty).map(Modifier::Default),
            5 => Some(Modifier::Default(E::Null)),
            _ => None,
        };
        entries.push(Entry::Column { source, name: format!("{}{}", t.pick(&COLNAMES), i), ty, modifier });
    }
    // patterns and columns may be interleaved in the documented syntax
    if t.chance(1, 3) && entries.len() > 2 {
        let k = t.draw(entries.len());
        let e = entries.remove(0);
        entries.insert(k, e);
    }
    TableDef { name: name.to_string(), entries }
}

// ---------------------------------------------------------------------------------------------
// layout variants

#[derive(Default, Debug, Clone)]
pub struct LayoutDims {
    pub case: bool,
    pub whitespace: bool,
    pub tight: bool,
    pub comments: bool,
}

const COMMENTS: [&str; 8] = ["c", " SELECT x FROM y", "it's", "a; b", "\\", "-- nested", " 'open", ""];

pub fn flip_case(t: &mut Tape, text: &str) -> String {
    match t.draw(4) {
        0 => text.to_lowercase(),
        1 => text.to_uppercase(),
        _ => text.chars().map(|c| if t.chance(1, 2) { c.to_uppercase().collect::<String>() } else { c.to_lowercase().collect::<String>() }).collect(),
    }
}

/// Re-lays out a token list: letter case of case-insensitive words, whitespace kinds/amounts, removal of optional
/// whitespace, `--` comments at token boundaries. Token identity is preserved by construction.
pub fn apply_layout(t: &mut Tape, tokens: &[Tok], dims: &mut LayoutDims, allow_case_in_cast_type: bool) -> String {
    let flip_case_dim = t.chance(3, 4);
    let ws_dim = t.chance(3, 4);
    let tight_dim = t.chance(1, 2);
    let comment_dim = t.chance(1, 2);
    let mut out = String::new();
    if ws_dim && t.chance(1, 4) {
        out.push_str(*t.pick(&[" ", "\n", "\t ", "\r\n"]));
        dims.whitespace = true;
    }
    if comment_dim && t.chance(1, 5) {
        out.push_str("--");
        out.push_str(*t.pick(&COMMENTS));
        out.push_str(if t.chance(1, 3) { "\r\n" } else { "\n" });
        dims.comments = true;
    }
    for (i, tk) in tokens.iter().enumerate() {
        if i > 0 {
            let prev = &tokens[i - 1];
            let need = needs_space(prev, tk);
            let mut sep = String::new();
            if comment_dim && t.chance(1, 8) {
                // `---` would swallow a preceding minus into the comment (also in standard SQL)
                if prev.text.ends_with('-') {
                    sep.push(' ');
                }
                sep.push_str(*t.pick(&["", " ", "\n"]));
                sep.push_str("--");
                sep.push_str(*t.pick(&COMMENTS));
                sep.push_str(if t.chance(1, 3) { "\r\n" } else { "\n" });
                dims.comments = true;
            } else if ws_dim && t.chance(1, 3) {
                // (every kind of white space char::is_whitespace knows, not only blank / tab / line feed)
                sep.push_str(*t.pick(&["  ", "\t", "\n", "\r\n", " \n  ", "\n\n", " \t ", "\u{b}", "\u{c}", "\r", "\u{a0}", "\u{2003}\u{3000}", "\u{85}", "\u{2028}", " \u{b} "]));
                dims.whitespace = true;
            } else if !need && tight_dim && t.chance(1, 2) {
                dims.tight = true;
            } else {
                // canonical separator
                let glue = matches!(prev.text.as_str(), "(" | "[" | "." | "::") || matches!(tk.text.as_str(), ")" | "]" | "," | "." | "::");
                if !glue || need {
                    sep.push(' ');
                }
            }
            out.push_str(&sep);
        }
        let flippable = match tk.kind {
            TokKind::Keyword | TokKind::Func | TokKind::Word => true,
            TokKind::Type => allow_case_in_cast_type || !(i > 0 && tokens[i - 1].text == "::"),
            _ => false,
        };
        if flippable && flip_case_dim && t.chance(1, 2) {
            let flipped = flip_case(t, &tk.text);
            if flipped != tk.text {
                dims.case = true;
            }
            out.push_str(&flipped);
        } else {
            out.push_str(&tk.text);
        }
    }
    if ws_dim && t.chance(1, 4) {
        out.push_str(*t.pick(&[" ", "\n", "\r\n", " \n"]));
        dims.whitespace = true;
    }
    if comment_dim && t.chance(1, 6) {
        out.push_str(" --");
        out.push_str(*t.pick(&COMMENTS));
        if t.chance(1, 2) {
            out.push_str(if t.chance(1, 3) { "\r\n" } else { "\n" });
        }
        dims.comments = true;
    }
    out
}
