//! Driving the real code: table definitions, the batch executor with a capturing printer, the per-line engine.

use std::fs::File;
use std::path::{Path, PathBuf};
use std::sync::atomic::{AtomicBool, Ordering};
use std::sync::Arc;

use sqlgrep::execution::execution_engine::{ExecutionConfig, ExecutionEngine};
use sqlgrep::execution::ResultRow;
use sqlgrep::executor::{DisplayOptions, FileExecutor, OutputFormat, Printer};
use sqlgrep::{Statement, Tables};

use crate::run::{catch, Ctx};

pub struct CapPrinter {
    pub lines: Vec<String>,
    /// clear `running` once this many lines have been printed
    pub stop_after: Option<usize>,
    pub running: Arc<AtomicBool>,
}

impl Printer for CapPrinter {
    fn println(&mut self, line: &str) {
        self.lines.push(line.to_string());
        if let Some(n) = self.stop_after {
            if self.lines.len() >= n {
                self.running.store(false, Ordering::SeqCst);
            }
        }
    }
}

#[derive(Debug, Clone, PartialEq)]
pub struct RunOut {
    /// everything handed to the printer, in order (record lines and blank separator lines)
    pub lines: Vec<String>,
    /// Ok or the execution error text
    pub result: Result<(), String>,
    pub total_lines: u64,
}

impl RunOut {
    /// record lines only (blank separator lines removed)
    pub fn records(&self) -> Vec<String> {
        self.lines.iter().filter(|l| !l.is_empty()).cloned().collect()
    }
}

pub fn parse_statement(text: &str) -> Result<Statement, String> {
    match catch(|| sqlgrep::parsing::parse(text)) {
        Ok(Ok(st)) => Ok(st),
        Ok(Err(e)) => Err(format!("rejected: {}", e)),
        Err(p) => Err(format!("panic: {}", p)),
    }
}

pub fn build_tables(defs: &str) -> Result<Tables, String> {
    let st = parse_statement(defs)?;
    let mut tables = Tables::new();
    if !tables.add_tables(st) {
        return Err("rejected: not a CREATE TABLE statement".to_string());
    }
    Ok(tables)
}

pub fn write_file(path: &Path, content: &[u8]) {
    std::fs::write(path, content).expect("write scratch file");
}

/// Writes the contents to scratch files of this shard and returns their paths.
pub fn scratch_files(ctx: &Ctx, tag: &str, contents: &[Vec<u8>]) -> Vec<PathBuf> {
    contents
        .iter()
        .enumerate()
        .map(|(i, c)| {
            let p = ctx.file(&format!("{}-{}.txt", tag, i));
            write_file(&p, c);
            p
        })
        .collect()
}

pub struct RunOptions {
    pub format: OutputFormat,
    pub single_result: bool,
    /// interrupt after this many printed lines
    pub stop_after_lines: Option<usize>,
    pub running: Arc<AtomicBool>,
    /// false: statistics-only run (DisplayOptions::print_result = false), nothing is printed
    pub print_result: bool,
}

impl Default for RunOptions {
    fn default() -> Self {
        RunOptions { format: OutputFormat::Json, single_result: true, stop_after_lines: None, running: Arc::new(AtomicBool::new(true)), print_result: true }
    }
}

/// Batch run through the real `FileExecutor`. `Err` = panic message.
pub fn run_batch(tables: &Tables, statement: &Statement, files: &[PathBuf], options: RunOptions) -> Result<RunOut, String> {
    let mut handles = Vec::new();
    for f in files {
        match File::open(f) {
            Ok(h) => handles.push(h),
            Err(e) => {
                return Ok(RunOut { lines: Vec::new(), result: Err(format!("open {}: {}", f.display(), e)), total_lines: 0 });
            }
        }
    }
    run_batch_handles(tables, statement, handles, options)
}

/// As `run_batch`, over handles that are already open (regular files, or the read side of a named pipe).
pub fn run_batch_handles(tables: &Tables, statement: &Statement, handles: Vec<File>, options: RunOptions) -> Result<RunOut, String> {
    catch(|| {
        let engine = ExecutionEngine::new(tables, statement);
        let display = DisplayOptions { output_format: options.format.clone(), single_result: options.single_result, print_result: options.print_result };
        let printer = CapPrinter { lines: Vec::new(), stop_after: options.stop_after_lines, running: options.running.clone() };
        let mut executor = FileExecutor::with_output_printer(options.running.clone(), handles, display, printer, engine).expect("executor");
        let result = executor.execute().map_err(|e| format!("{}", e));
        let lines = executor.output_printer().printer().lines.clone();
        RunOut { lines, result, total_lines: executor.statistics().total_lines }
    })
}

/// As `run_query`, but the file at index `piped` reaches the executor through a named pipe (what `--stdin` fed by a
/// pipe, a FIFO or a process substitution amounts to: a handle without a size, that cannot be repositioned); the
/// other files are regular files. A writer thread feeds the pipe; a reader that stops early (error) just ends it.
pub fn run_query_piped(ctx: &Ctx, defs: &str, query: &str, contents: &[Vec<u8>], piped: usize) -> Result<RunOut, String> {
    let tables = build_tables(defs)?;
    let statement = parse_statement(query)?;
    let files = scratch_files(ctx, "in", contents);
    let fifo = ctx.file("in-pipe.fifo");
    let _ = std::fs::remove_file(&fifo);
    let cpath = std::ffi::CString::new(fifo.to_string_lossy().as_bytes()).map_err(|e| format!("harness: fifo path: {}", e))?;
    if unsafe { libc::mkfifo(cpath.as_ptr(), 0o600) } != 0 {
        return Err(format!("harness: mkfifo {}: {}", fifo.display(), std::io::Error::last_os_error()));
    }
    // a reader that ends early must end the writer with an error, not the process with a signal (libFuzzer's main
    // does not ignore SIGPIPE the way a Rust main does)
    unsafe { libc::signal(libc::SIGPIPE, libc::SIG_IGN) };
    let data = contents[piped].clone();
    let wpath = fifo.clone();
    let writer = std::thread::spawn(move || {
        use std::io::Write;
        if let Ok(mut w) = std::fs::OpenOptions::new().write(true).open(&wpath) {
            let _ = w.write_all(&data);
        }
    });
    let mut handles = Vec::new();
    for (i, f) in files.iter().enumerate() {
        let h = if i == piped { File::open(&fifo) } else { File::open(f) };
        handles.push(h.map_err(|e| format!("harness: open input {}: {}", i, e))?);
    }
    let out = run_batch_handles(&tables, &statement, handles, RunOptions::default());
    let _ = writer.join();
    let _ = std::fs::remove_file(&fifo);
    out
}

/// Convenience: definitions text + query text + file contents, JSON format.
pub fn run_query(ctx: &Ctx, defs: &str, query: &str, contents: &[Vec<u8>]) -> Result<RunOut, String> {
    let tables = build_tables(defs)?;
    let statement = parse_statement(query)?;
    let files = scratch_files(ctx, "in", contents);
    run_batch(&tables, &statement, &files, RunOptions::default())
}

/// Structured result of feeding one line to a long-lived engine (follow-mode path).
#[derive(Debug)]
pub struct LineOut {
    pub result: Option<ResultRow>,
    pub reached_limit: bool,
}

pub fn engine_line(engine: &mut ExecutionEngine, line: &str, config: &ExecutionConfig) -> Result<Result<LineOut, String>, String> {
    catch(|| match engine.execute(line.to_string(), config) {
        Ok(out) => Ok(LineOut { result: out.result_row, reached_limit: out.reached_limit }),
        Err(e) => Err(format!("{}", e)),
    })
}

pub fn lines_to_bytes(lines: &[String]) -> Vec<u8> {
    let mut out = Vec::new();
    for l in lines {
        out.extend_from_slice(l.as_bytes());
        out.push(b'\n');
    }
    out
}
