//! Executable statements of every kind over generated data tables (for the metamorphic properties).

use crate::data::*;
use crate::gen_typed::*;
use crate::props::c04::{gen_aggregate_query, gen_group_lines};
use crate::run::Ctx;
use crate::sql::*;
use crate::stmt::*;
use crate::tape::Tape;
use crate::value::V;

#[derive(Clone, Copy, Debug, PartialEq)]
pub struct QOpts {
    pub join: bool,
    pub limit: bool,
    pub distinct: bool,
    pub aggregate: bool,
    pub having: bool,
    /// STRING_AGG / ARRAY_AGG allowed
    pub order_sensitive: bool,
    /// a join is generated with probability join_share/8
    pub join_share: u32,
}

impl QOpts {
    pub fn all() -> QOpts {
        QOpts { join: true, limit: true, distinct: true, aggregate: true, having: true, order_sensitive: true, join_share: 2 }
    }
}

pub struct Generated {
    pub table: DataTable,
    pub joined: Option<DataTable>,
    pub query: Select,
}

/// A statement that normally executes without error over `gen_group_lines` data.
pub fn gen_query(t: &mut Tape, ctx: &Ctx, opts: QOpts) -> Generated {
    let mut table = gen_table(t, "t", "c", true);
    let mut joined = None;
    let mut excluded = 0u64;
    let want_join = opts.join && t.chance(opts.join_share, 8);
    let aggregate = opts.aggregate && t.chance(2, 5);
    let mut q;
    if want_join {
        let prefix = if t.chance(1, 3) { "c" } else { "d" };
        let mut right = gen_table(t, "u", prefix, false);
        right.cols.truncate(3);
        table.cols.truncate(4);
        if table.not_null.map(|i| i >= table.cols.len()).unwrap_or(false) {
            table.not_null = None;
        }
        let regex_ok = |ty: Ty| DataTable::regex_types().contains(&ty);
        let mut jty = *t.pick(&[Ty::Int, Ty::Int, Ty::Text]);
        if (!table.json || !right.json) && !regex_ok(jty) {
            jty = Ty::Int;
        }
        let jl = t.draw(table.cols.len());
        let jr = t.draw(right.cols.len());
        table.cols[jl].1 = jty;
        right.cols[jr].1 = jty;
        let l = ("t".to_string(), table.cols[jl].0.clone());
        let r = ("u".to_string(), right.cols[jr].0.clone());
        let join = Join { outer: !aggregate && t.chance(1, 3), table: "u".into(), file: "JOINED".into(), left: l, right: r };
        let mut cols: Vec<(String, Ty)> = table.cols.clone();
        for (n, ty) in &right.cols {
            let clash = table.cols.iter().any(|c| &c.0 == n);
            cols.push((if clash { format!("u.{}", n) } else { n.clone() }, *ty));
        }
        if aggregate {
            let combined = DataTable { name: "t".into(), json: true, cols: cols.clone(), not_null: None, default_col: None };
            q = gen_aggregate_query(t, &combined, ctx, opts.order_sensitive, &mut excluded);
            if !opts.having {
                q.having = None;
            }
        } else {
            q = gen_plain(t, ctx, &cols, opts);
        }
        q.join = Some(join);
        joined = Some(right);
    } else if aggregate {
        q = gen_aggregate_query(t, &table, ctx, opts.order_sensitive, &mut excluded);
        if !opts.having {
            q.having = None;
        }
        if opts.distinct && t.chance(1, 5) {
            q.distinct = true;
        }
    } else {
        let cols = table.cols.clone();
        q = gen_plain(t, ctx, &cols, opts);
    }
    if opts.limit && t.chance(1, 3) {
        q.limit = Some(t.range(0, 6) as u64);
    }
    Generated { table, joined, query: q }
}

fn gen_plain(t: &mut Tape, ctx: &Ctx, cols: &[(String, Ty)], opts: QOpts) -> Select {
    let scope = Scope { cols: cols.to_vec() };
    let mut g = TypedGen::new(&scope, GenCfg::plain(), ctx);
    let mut q = Select::simple(Vec::new(), "t");
    match t.weighted(&[8, 1, 1]) {
        0 => {
            let n = 1 + t.draw(3);
            for i in 0..n {
                let (name, ty) = t.pick(cols).clone();
                let e = if t.chance(1, 4) && matches!(ty, Ty::Int | Ty::Real | Ty::Bool) { g.gen(t, ty, 1) } else { E::Col(name) };
                q.items.push((e, Some(format!("r{}", i))));
            }
        }
        1 => q.items.push((E::Star, None)),
        _ => q.items.push((E::col("input"), None)),
    }
    if t.chance(1, 3) {
        q.filter = Some(g.gen(t, Ty::Bool, 2));
    }
    if opts.distinct && t.chance(1, 3) {
        q.distinct = true;
    }
    q
}

/// Lines that are not admitted *by construction* for the table (they match nothing, carry only NULLs,
/// or fail the NOT NULL column). None if the table admits every line (e.g. a regex table with a BOOLEAN column).
pub fn gen_noise_line(t: &mut Tape, table: &DataTable) -> Option<String> {
    if table.has_default() {
        // a declared DEFAULT counts as a value: every line is admitted unless its NOT NULL column is NULL
        if let Some(nn) = table.not_null {
            if table.json || table.cols[nn].1 != Ty::Bool {
                let values: Vec<V> = table.cols.iter().enumerate().map(|(i, (_, ty))| if i == nn { V::Null } else { crate::props::c04::small_value(t, *ty) }).collect();
                return Some(table.line(&values, t));
            }
        }
        return None;
    }
    if table.json {
        let mut options: Vec<String> = vec![
            String::new(),
            "plain text, not json".to_string(),
            "{}".to_string(),
            "{\"other\": 1}".to_string(),
            "[1, 2, 3]".to_string(),
            "{\"c0\": ".to_string(),
            "null".to_string(),
            "   ".to_string(),
        ];
        // every field present but null
        options.push(format!("{{{}}}", table.cols.iter().map(|c| format!("\"{}\": null", c.0)).collect::<Vec<_>>().join(", ")));
        // every field of the wrong JSON type (object) -> NULL in every column
        options.push(format!("{{{}}}", table.cols.iter().map(|c| format!("\"{}\": {{}}", c.0)).collect::<Vec<_>>().join(", ")));
        // near-misses: a complete, fully filled document followed by something else is not one JSON document
        {
            let values: Vec<V> = table.cols.iter().map(|(_, ty)| crate::props::c04::small_value(t, *ty)).collect();
            // (without the optional trailing blanks: cutting off a blank would leave a valid document)
            let full = table.line(&values, t).trim_end().to_string();
            let junk = *t.pick(&[" # comment", ",", "}", " x", "]", " 1", "{}"]);
            options.push(format!("{}{}", full, junk));
            options.push(format!("{}{}", full, full));
            options.push(format!("x{}", full));
            options.push(full[..full.len() - 1].to_string());
        }
        if let Some(nn) = table.not_null {
            // all other columns filled, the NOT NULL one missing
            let fields: Vec<String> = table
                .cols
                .iter()
                .enumerate()
                .filter(|(i, _)| *i != nn)
                .map(|(_, (name, ty))| format!("\"{}\": {}", name, json_text(&crate::props::c04::small_value(t, *ty))))
                .collect();
            options.push(format!("{{{}}}", fields.join(", ")));
        }
        Some(t.pick(&options).clone())
    } else {
        if table.cols.iter().any(|c| c.1 == Ty::Bool) {
            // the pattern always matches and a BOOLEAN column is then false, not NULL
            if let Some(nn) = table.not_null {
                if table.cols[nn].1 != Ty::Bool {
                    let values: Vec<V> = table.cols.iter().enumerate().map(|(i, (_, ty))| if i == nn { V::Null } else { crate::props::c04::small_value(t, *ty) }).collect();
                    return Some(table.line(&values, t));
                }
            }
            return None;
        }
        let mut options = vec![String::new(), "noise".to_string(), "zz=1;".to_string(), ";;;".to_string(), " c0=1;".to_string()];
        if let Some(nn) = table.not_null {
            let values: Vec<V> = table.cols.iter().enumerate().map(|(i, (_, ty))| if i == nn { V::Null } else { crate::props::c04::small_value(t, *ty) }).collect();
            options.push(table.line(&values, t));
        }
        Some(t.pick(&options).clone())
    }
}

pub fn gen_data(t: &mut Tape, table: &DataTable, max_rows: usize) -> Vec<String> {
    // admitted lines only (noise is added separately where a property wants it)
    gen_group_lines(t, table, max_rows).into_iter().filter(|l| !matches!(l.as_str(), "" | "noise" | "{}")).collect()
}
