//! Typed data tables for the semantic properties: a definition text, column names/types and generated lines.
//! The oracle never trusts the generator's idea of a row: it reads the rows the real `extract` produced.

use serde::{Deserialize, Serialize};

use crate::tape::Tape;
use crate::value::V;

#[derive(Clone, Copy, Debug, PartialEq, Eq, Hash, Serialize, Deserialize)]
pub enum Ty {
    Int,
    Real,
    Text,
    Bool,
    Ts,
    Iv,
    IntArr,
    TextArr,
}

impl Ty {
    pub const SCALARS: [Ty; 6] = [Ty::Int, Ty::Real, Ty::Text, Ty::Bool, Ty::Ts, Ty::Iv];
    pub fn sql(&self) -> &'static str {
        match self {
            Ty::Int => "INT",
            Ty::Real => "REAL",
            Ty::Text => "TEXT",
            Ty::Bool => "BOOLEAN",
            Ty::Ts => "TIMESTAMP",
            Ty::Iv => "INTERVAL",
            Ty::IntArr => "INT[]",
            Ty::TextArr => "TEXT[]",
        }
    }
    pub fn cast_name(&self) -> &'static str {
        match self {
            Ty::Int => "int",
            Ty::Real => "real",
            Ty::Text => "text",
            Ty::Bool => "boolean",
            Ty::Ts => "timestamp",
            Ty::Iv => "interval",
            Ty::IntArr => "int[]",
            Ty::TextArr => "text[]",
        }
    }
}

#[derive(Clone, Debug, PartialEq, Serialize, Deserialize)]
pub struct DataTable {
    pub name: String,
    /// JSON-path columns (true) or one regex pattern with capture groups (false)
    pub json: bool,
    pub cols: Vec<(String, Ty)>,
    /// index of a NOT NULL column, if any
    pub not_null: Option<usize>,
    /// index of a column declared with a DEFAULT (an INT, REAL, TEXT or BOOLEAN column without another modifier), if any
    #[serde(default)]
    pub default_col: Option<usize>,
}

impl DataTable {
    fn default_text(&self, i: usize) -> &'static str {
        if self.default_col != Some(i) || self.not_null == Some(i) {
            return "";
        }
        match self.cols[i].1 {
            Ty::Int => " DEFAULT 7",
            Ty::Real => " DEFAULT 2.5",
            Ty::Text => " DEFAULT 'dflt'",
            Ty::Bool => " DEFAULT FALSE",
            _ => "",
        }
    }

    /// Whether a column really carries a DEFAULT in the definition text.
    pub fn has_default(&self) -> bool {
        (0..self.cols.len()).any(|i| !self.default_text(i).is_empty())
    }

    pub fn definition(&self) -> String {
        let mut parts = Vec::new();
        if self.json {
            for (i, (name, ty)) in self.cols.iter().enumerate() {
                let modifier = if self.not_null == Some(i) {
                    " NOT NULL"
                } else if matches!(ty, Ty::Ts | Ty::Iv) {
                    " CONVERT"
                } else {
                    self.default_text(i)
                };
                parts.push(format!("{{ .{} }} => {} {}{}", name, name, ty.sql(), modifier));
            }
        } else {
            // regex flavour: fields `name=value;` in column order, each field optional
            let mut pattern = String::from("^");
            for (name, ty) in &self.cols {
                let class = match ty {
                    Ty::Int => "(-?[0-9]+)",
                    Ty::Real => "(-?[0-9.]+(?:e-?[0-9]+)?|NaN|-?inf)",
                    Ty::Bool => "(Y)",
                    _ => "([^;]*)",
                };
                pattern.push_str(&format!("(?:{}={};)?", name, class));
            }
            parts.push(format!("line = {}", crate::sql::quote(&pattern)));
            for (i, (name, ty)) in self.cols.iter().enumerate() {
                let modifier = if self.not_null == Some(i) { " NOT NULL" } else { self.default_text(i) };
                parts.push(format!("line[{}] => {} {}{}", i + 1, name, ty.sql(), modifier));
            }
        }
        format!("CREATE TABLE {}({});", self.name, parts.join(", "))
    }

    /// types the regex flavour can carry
    pub fn regex_types() -> [Ty; 4] {
        [Ty::Int, Ty::Real, Ty::Text, Ty::Bool]
    }

    pub fn cols_of(&self, ty: Ty) -> Vec<&str> {
        self.cols.iter().filter(|c| c.1 == ty).map(|c| c.0.as_str()).collect()
    }

    /// One input line carrying the given values (V::Null = field absent / JSON null).
    pub fn line(&self, values: &[V], t: &mut Tape) -> String {
        if self.json {
            let mut fields = Vec::new();
            for ((name, _), v) in self.cols.iter().zip(values.iter()) {
                if v.is_null() {
                    if t.chance(1, 2) {
                        fields.push(format!("\"{}\": null", name));
                    }
                    continue;
                }
                fields.push(format!("\"{}\": {}", name, json_text(v)));
            }
            // (trailing blanks are part of the line - `input` - and of no column)
            format!("{{{}}}{}", fields.join(", "), if t.chance(1, 12) { *t.pick(&[" ", "  ", "\t"]) } else { "" })
        } else {
            let mut out = String::new();
            for ((name, ty), v) in self.cols.iter().zip(values.iter()) {
                match (ty, v) {
                    (_, V::Null) => {}
                    (Ty::Bool, V::Bool(true)) => out.push_str(&format!("{}=Y;", name)),
                    (Ty::Bool, _) => {}
                    (_, V::Int(i)) => out.push_str(&format!("{}={};", name, i)),
                    (_, V::Real(r)) => out.push_str(&format!("{}={};", name, real_text(*r))),
                    (_, V::Text(s)) => out.push_str(&format!("{}={};", name, s)),
                    _ => {}
                }
            }
            if t.chance(1, 12) {
                out.push_str(*t.pick(&[" ", "  ", "\t"]));
            }
            out
        }
    }
}

pub fn real_text(r: f64) -> String {
    if r == r.trunc() && r.abs() < 1e15 {
        format!("{:.1}", r)
    } else {
        format!("{}", r)
    }
}

pub fn json_string(s: &str) -> String {
    let mut out = String::from("\"");
    for ch in s.chars() {
        match ch {
            '"' => out.push_str("\\\""),
            '\\' => out.push_str("\\\\"),
            '\n' => out.push_str("\\n"),
            '\t' => out.push_str("\\t"),
            '\r' => out.push_str("\\r"),
            c if (c as u32) < 0x20 => out.push_str(&format!("\\u{:04x}", c as u32)),
            c => out.push(c),
        }
    }
    out.push('"');
    out
}

pub fn json_text(v: &V) -> String {
    match v {
        V::Null => "null".to_string(),
        V::Int(i) => i.to_string(),
        V::Real(r) => real_text(*r),
        V::Bool(b) => b.to_string(),
        V::Text(s) => json_string(s),
        V::Array(items) => format!("[{}]", items.iter().map(json_text).collect::<Vec<_>>().join(", ")),
        V::Ts(m) => {
            let t = crate::value::ts_text(*m);
            json_string(&t[..19])
        }
        V::Iv(m) => {
            let s = m / 1_000_000;
            json_string(&format!("{}:{:02}:{:02}", s / 3600, (s / 60) % 60, s % 60))
        }
    }
}

pub const TEXT_POOL: [&str; 10] = ["", "a", "b", "ab", "abc", "B", "z z", "10", "é", "a1"];

/// Value pools per type. `hazard` adds extremes that make arithmetic overflow etc.
pub fn gen_value(t: &mut Tape, ty: Ty, json: bool, hazard: bool) -> V {
    match ty {
        Ty::Int => {
            if hazard && t.chance(1, 4) {
                V::Int(*t.pick(&[i64::MAX, i64::MIN, i64::MAX - 1, i64::MIN + 1, 1 << 62, -(1 << 62), 4294967296, 3037000500, 3000000000, 2147483648, -2147483648, 3037000499]))
            } else {
                V::Int(match t.draw(4) {
                    0 => t.range(-3, 3),
                    1 => t.range(0, 5),
                    2 => t.range(-100, 100),
                    _ => t.range(0, 2),
                })
            }
        }
        // dyadic rationals: sums and products stay exact
        Ty::Real => V::Real(t.range(-64, 64) as f64 / 8.0),
        Ty::Text => {
            let s = *t.pick(&TEXT_POOL);
            if !json && s.contains(';') {
                V::Text("a".to_string())
            } else {
                V::Text(s.to_string())
            }
        }
        Ty::Bool => V::Bool(t.chance(1, 2)),
        Ty::Ts => V::Ts((1_600_000_000 + t.range(0, 4) * 86_400 * 200 + t.range(0, 3) * 3_600 + t.range(0, 2) * 59) * 1_000_000),
        Ty::Iv => V::Iv((t.range(0, 3) * 3600 + t.range(0, 3) * 60 + t.range(0, 5)) * 1_000_000),
        Ty::IntArr => {
            let n = t.draw(4);
            V::Array((0..n).map(|_| if t.chance(1, 6) { V::Null } else { V::Int(t.range(0, 4)) }).collect())
        }
        Ty::TextArr => {
            let n = t.draw(4);
            V::Array((0..n).map(|_| if t.chance(1, 6) { V::Null } else { V::Text(t.pick(&TEXT_POOL[..6]).to_string()) }).collect())
        }
    }
}

pub fn gen_table(t: &mut Tape, name: &str, prefix: &str, allow_not_null: bool) -> DataTable {
    let json = t.chance(2, 3);
    let ncols = 2 + t.draw(5);
    let mut cols = Vec::new();
    for i in 0..ncols {
        let ty = if json {
            // make sure the common types are present early
            match i {
                0 => Ty::Int,
                1 => *t.pick(&[Ty::Real, Ty::Text, Ty::Int]),
                _ => *t.pick(&[Ty::Int, Ty::Real, Ty::Text, Ty::Bool, Ty::Ts, Ty::Iv, Ty::IntArr, Ty::TextArr]),
            }
        } else {
            match i {
                0 => Ty::Int,
                _ => *t.pick(&DataTable::regex_types()),
            }
        };
        cols.push((format!("{}{}", prefix, i), ty));
    }
    let mut not_null = if allow_not_null && t.chance(1, 6) { Some(t.draw(ncols)) } else { None };
    // one modifier per column: a JSON TIMESTAMP / INTERVAL column needs CONVERT
    if let Some(i) = not_null {
        if matches!(cols[i].1, Ty::Ts | Ty::Iv) {
            not_null = None;
        }
    }
    // one table in six declares a DEFAULT for one of its columns (absent fields then carry that value, not NULL)
    let default_col = if t.chance(1, 6) { Some(t.draw(ncols)) } else { None };
    DataTable { name: name.to_string(), json, cols, not_null, default_col }
}

/// Lines for a table: rows with NULLs in every position, plus (optionally) lines that yield no row.
pub fn gen_lines(t: &mut Tape, table: &DataTable, max_rows: usize, hazard: bool, noise: bool) -> Vec<String> {
    let n = t.draw(max_rows + 1);
    let mut lines = Vec::new();
    for _ in 0..n {
        if noise && t.chance(1, 8) {
            lines.push(t.pick(&["", "noise", "{}", "{\"other\": 1}", "x=1;", "[1, 2]", "{broken"]).to_string());
            continue;
        }
        let values: Vec<V> = table.cols.iter().map(|(_, ty)| if t.chance(1, 5) { V::Null } else { gen_value(t, *ty, table.json, hazard) }).collect();
        lines.push(table.line(&values, t));
    }
    lines
}
