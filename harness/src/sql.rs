//! Expression AST of the harness, rendering to token lists and text.
//!
//! The reference grammar (C13), tightest first: postfix `::type` / `[i]` / qualified name;
//! unary minus; `* /`; `+ -`; comparisons together with IS and IN; NOT; AND; OR.
//! Binary operators associate to the left.

use serde::{Deserialize, Serialize};

#[derive(Clone, Copy, Debug, PartialEq, Eq, Hash, Serialize, Deserialize)]
pub enum BinOp {
    Or,
    And,
    Eq,
    Ne,
    Lt,
    Le,
    Gt,
    Ge,
    Add,
    Sub,
    Mul,
    Div,
}

impl BinOp {
    pub const ALL: [BinOp; 12] = [BinOp::Or, BinOp::And, BinOp::Eq, BinOp::Ne, BinOp::Lt, BinOp::Le, BinOp::Gt, BinOp::Ge, BinOp::Add, BinOp::Sub, BinOp::Mul, BinOp::Div];
    pub const CMP: [BinOp; 6] = [BinOp::Eq, BinOp::Ne, BinOp::Lt, BinOp::Le, BinOp::Gt, BinOp::Ge];
    pub const ARITH: [BinOp; 4] = [BinOp::Add, BinOp::Sub, BinOp::Mul, BinOp::Div];

    pub fn text(&self) -> &'static str {
        match self {
            BinOp::Or => "OR",
            BinOp::And => "AND",
            BinOp::Eq => "=",
            BinOp::Ne => "!=",
            BinOp::Lt => "<",
            BinOp::Le => "<=",
            BinOp::Gt => ">",
            BinOp::Ge => ">=",
            BinOp::Add => "+",
            BinOp::Sub => "-",
            BinOp::Mul => "*",
            BinOp::Div => "/",
        }
    }

    /// reference precedence level (higher binds tighter)
    pub fn level(&self) -> u8 {
        match self {
            BinOp::Or => 1,
            BinOp::And => 2,
            BinOp::Eq | BinOp::Ne | BinOp::Lt | BinOp::Le | BinOp::Gt | BinOp::Ge => 4,
            BinOp::Add | BinOp::Sub => 5,
            BinOp::Mul | BinOp::Div => 6,
        }
    }

    pub fn is_cmp(&self) -> bool {
        self.level() == 4
    }
    pub fn is_arith(&self) -> bool {
        self.level() >= 5
    }
    pub fn is_bool(&self) -> bool {
        self.level() <= 2
    }
}

pub const LEVEL_NOT: u8 = 3;
pub const LEVEL_CMP: u8 = 4;
pub const LEVEL_NEG: u8 = 7;
pub const LEVEL_POSTFIX: u8 = 8;
pub const LEVEL_ATOM: u8 = 9;

#[derive(Clone, Debug, PartialEq, Serialize, Deserialize)]
pub enum E {
    Int(i64),
    /// literal text of a REAL literal, e.g. "1.5"
    Real(String),
    Str(String),
    Null,
    True,
    False,
    /// plain or table-qualified (`t.c`) column
    Col(String),
    Neg(Box<E>),
    Not(Box<E>),
    Bin(BinOp, Box<E>, Box<E>),
    Is { not: bool, l: Box<E>, r: Box<E> },
    In { not: bool, x: Box<E>, list: Vec<E> },
    Cast(Box<E>, String),
    Index(Box<E>, Box<E>),
    Call(String, Vec<E>),
    Case(Vec<(E, E)>, Box<E>),
    Array(Vec<E>),
    Extract(String, Box<E>),
    /// aggregate call with optional DISTINCT (only COUNT): name, distinct, args
    Agg(String, bool, Vec<E>),
    /// `*`
    Star,
}

impl E {
    pub fn bin(op: BinOp, l: E, r: E) -> E {
        E::Bin(op, Box::new(l), Box::new(r))
    }
    pub fn col(name: &str) -> E {
        E::Col(name.to_string())
    }
    pub fn call(name: &str, args: Vec<E>) -> E {
        E::Call(name.to_string(), args)
    }
    pub fn cast(e: E, ty: &str) -> E {
        E::Cast(Box::new(e), ty.to_string())
    }

    pub fn level(&self) -> u8 {
        match self {
            E::Bin(op, _, _) => op.level(),
            E::Is { .. } | E::In { .. } => LEVEL_CMP,
            E::Not(_) => LEVEL_NOT,
            E::Neg(_) => LEVEL_NEG,
            E::Cast(_, _) | E::Index(_, _) => LEVEL_POSTFIX,
            // a qualified name is built by the `.` operator: tighter than unary minus, an atom for everything else
            _ => LEVEL_ATOM,
        }
    }

    pub fn is_qualified(&self) -> bool {
        matches!(self, E::Col(n) if n.contains('.'))
    }

    pub fn depth(&self) -> usize {
        1 + self.children().iter().map(|c| c.depth()).max().unwrap_or(0)
    }

    pub fn size(&self) -> usize {
        1 + self.children().iter().map(|c| c.size()).sum::<usize>()
    }

    pub fn children(&self) -> Vec<&E> {
        match self {
            E::Neg(a) | E::Not(a) | E::Cast(a, _) | E::Extract(_, a) => vec![a],
            E::Bin(_, a, b) | E::Index(a, b) => vec![a, b],
            E::Is { l, r, .. } => vec![l, r],
            E::In { x, list, .. } => {
                let mut v: Vec<&E> = vec![x];
                v.extend(list.iter());
                v
            }
            E::Call(_, args) | E::Array(args) | E::Agg(_, _, args) => args.iter().collect(),
            E::Case(clauses, els) => {
                let mut v: Vec<&E> = Vec::new();
                for (c, r) in clauses {
                    v.push(c);
                    v.push(r);
                }
                v.push(els);
                v
            }
            _ => vec![],
        }
    }

    pub fn visit<'a>(&'a self, f: &mut dyn FnMut(&'a E)) {
        f(self);
        for c in self.children() {
            c.visit(f);
        }
    }
}

#[derive(Clone, Copy, Debug, PartialEq, Eq, Serialize, Deserialize)]
pub enum TokKind {
    /// reserved word (SELECT, AND, NOT, IS, IN, CASE, ...)
    Keyword,
    /// function or aggregate name
    Func,
    /// type name (column type or after `::`)
    Type,
    /// case-insensitive literal words TRUE / FALSE / NULL, `array`, EXTRACT part, modifiers
    Word,
    /// identifier whose spelling matters (column, table, alias, pattern name, `split`)
    Ident,
    Num,
    Str,
    Op,
    Punct,
}

#[derive(Clone, Debug, PartialEq, Serialize, Deserialize)]
pub struct Tok {
    pub text: String,
    pub kind: TokKind,
}

pub fn tok(text: &str, kind: TokKind) -> Tok {
    Tok { text: text.to_string(), kind }
}
pub fn kw(text: &str) -> Tok {
    tok(text, TokKind::Keyword)
}
pub fn punct(text: &str) -> Tok {
    tok(text, TokKind::Punct)
}
pub fn op(text: &str) -> Tok {
    tok(text, TokKind::Op)
}
pub fn ident(text: &str) -> Tok {
    tok(text, TokKind::Ident)
}

/// SQL string literal in the tokenizer's escaping (`\\`, `\'`).
pub fn quote(s: &str) -> String {
    let mut out = String::with_capacity(s.len() + 2);
    out.push('\'');
    for ch in s.chars() {
        if ch == '\\' || ch == '\'' {
            out.push('\\');
        }
        out.push(ch);
    }
    out.push('\'');
    out
}

#[derive(Clone, Copy, PartialEq, Eq, Debug)]
pub enum Paren {
    /// minimal parentheses under the reference grammar
    Minimal,
    /// every compound operand parenthesised (leaves the parser no grouping freedom)
    Full,
}

/// Known-defect exclusion for the minimal renderer: a hook deciding that a given child must be
/// parenthesised although the reference grammar does not need it. (parent, child, side)
pub type ExtraParen<'a> = &'a dyn Fn(&E, &E, Side) -> bool;

#[derive(Clone, Copy, PartialEq, Eq, Debug)]
pub enum Side {
    Left,
    Right,
    /// operand of a prefix operator
    Prefix,
    /// operand of a postfix operator (cast, subscript base)
    PostfixBase,
}

pub struct Renderer<'a> {
    pub paren: Paren,
    pub extra: Option<ExtraParen<'a>>,
    /// count of parentheses added by `extra`
    pub extra_added: std::cell::Cell<u64>,
}

impl<'a> Renderer<'a> {
    pub fn minimal() -> Renderer<'a> {
        Renderer { paren: Paren::Minimal, extra: None, extra_added: std::cell::Cell::new(0) }
    }
    pub fn full() -> Renderer<'a> {
        Renderer { paren: Paren::Full, extra: None, extra_added: std::cell::Cell::new(0) }
    }
    pub fn minimal_with(extra: ExtraParen<'a>) -> Renderer<'a> {
        Renderer { paren: Paren::Minimal, extra: Some(extra), extra_added: std::cell::Cell::new(0) }
    }

    pub fn expr(&self, e: &E) -> Vec<Tok> {
        let mut out = Vec::new();
        self.emit(e, &mut out);
        out
    }

    fn child(&self, parent: &E, c: &E, side: Side, need: bool, out: &mut Vec<Tok>) {
        let compound = !matches!(c.level(), LEVEL_ATOM) || c.is_qualified();
        let mut wrap = match self.paren {
            Paren::Full => compound,
            Paren::Minimal => need,
        };
        if !wrap && self.paren == Paren::Minimal {
            if let Some(extra) = self.extra {
                if extra(parent, c, side) {
                    wrap = true;
                    self.extra_added.set(self.extra_added.get() + 1);
                }
            }
        }
        if wrap {
            out.push(punct("("));
            self.emit(c, out);
            out.push(punct(")"));
        } else {
            self.emit(c, out);
        }
    }

    /// expression in a self-delimited context (argument, list element, CASE part, subscript)
    fn inner(&self, e: &E, out: &mut Vec<Tok>) {
        self.emit(e, out)
    }

    fn list(&self, items: &[E], out: &mut Vec<Tok>) {
        for (i, a) in items.iter().enumerate() {
            if i > 0 {
                out.push(punct(","));
            }
            self.inner(a, out);
        }
    }

    fn emit(&self, e: &E, out: &mut Vec<Tok>) {
        match e {
            E::Int(v) => out.push(tok(&v.to_string(), TokKind::Num)),
            E::Real(s) => out.push(tok(s, TokKind::Num)),
            E::Str(s) => out.push(tok(&quote(s), TokKind::Str)),
            E::Null => out.push(tok("NULL", TokKind::Word)),
            E::True => out.push(tok("TRUE", TokKind::Word)),
            E::False => out.push(tok("FALSE", TokKind::Word)),
            E::Star => out.push(op("*")),
            E::Col(name) => {
                let mut first = true;
                for part in name.split('.') {
                    if !first {
                        out.push(op("."));
                    }
                    first = false;
                    out.push(ident(part));
                }
            }
            E::Neg(a) => {
                out.push(op("-"));
                // operand: anything at least as tight as unary minus itself would be `- -x` (a comment start when
                // written without a space), so a nested negation is always parenthesised.
                let need = a.level() < LEVEL_POSTFIX;
                self.child(e, a, Side::Prefix, need, out);
            }
            E::Not(a) => {
                out.push(kw("NOT"));
                let need = a.level() < LEVEL_NOT;
                self.child(e, a, Side::Prefix, need, out);
            }
            E::Bin(o, l, r) => {
                let lv = o.level();
                self.child(e, l, Side::Left, l.level() < lv, out);
                out.push(if o.is_bool() { kw(o.text()) } else { op(o.text()) });
                self.child(e, r, Side::Right, r.level() <= lv, out);
            }
            E::Is { not, l, r } => {
                self.child(e, l, Side::Left, l.level() < LEVEL_CMP, out);
                out.push(kw("IS"));
                if *not {
                    out.push(kw("NOT"));
                }
                self.child(e, r, Side::Right, r.level() <= LEVEL_CMP, out);
            }
            E::In { not, x, list } => {
                self.child(e, x, Side::Left, x.level() < LEVEL_CMP, out);
                if *not {
                    out.push(kw("NOT"));
                }
                out.push(kw("IN"));
                out.push(punct("("));
                self.list(list, out);
                out.push(punct(")"));
            }
            E::Cast(a, ty) => {
                self.child(e, a, Side::PostfixBase, a.level() < LEVEL_POSTFIX, out);
                out.push(punct("::"));
                let base = ty.trim_end_matches("[]");
                out.push(tok(base, TokKind::Type));
                let mut rest = &ty[base.len()..];
                while rest.starts_with("[]") {
                    out.push(punct("["));
                    out.push(punct("]"));
                    rest = &rest[2..];
                }
            }
            E::Index(a, i) => {
                self.child(e, a, Side::PostfixBase, a.level() < LEVEL_POSTFIX, out);
                out.push(punct("["));
                self.inner(i, out);
                out.push(punct("]"));
            }
            E::Call(name, args) => {
                out.push(tok(name, TokKind::Func));
                out.push(punct("("));
                self.list(args, out);
                out.push(punct(")"));
            }
            E::Agg(name, distinct, args) => {
                out.push(tok(name, TokKind::Func));
                out.push(punct("("));
                if *distinct {
                    out.push(kw("DISTINCT"));
                }
                self.list(args, out);
                out.push(punct(")"));
            }
            E::Array(items) => {
                out.push(tok("array", TokKind::Word));
                out.push(punct("["));
                self.list(items, out);
                out.push(punct("]"));
            }
            E::Extract(part, a) => {
                out.push(kw("EXTRACT"));
                out.push(punct("("));
                out.push(tok(part, TokKind::Word));
                out.push(kw("FROM"));
                self.inner(a, out);
                out.push(punct(")"));
            }
            E::Case(clauses, els) => {
                out.push(kw("CASE"));
                for (c, r) in clauses {
                    out.push(kw("WHEN"));
                    self.inner(c, out);
                    out.push(kw("THEN"));
                    self.inner(r, out);
                }
                out.push(kw("ELSE"));
                self.inner(els, out);
                out.push(kw("END"));
            }
        }
    }
}

fn word_like(t: &Tok) -> bool {
    matches!(t.kind, TokKind::Keyword | TokKind::Func | TokKind::Type | TokKind::Word | TokKind::Ident | TokKind::Num | TokKind::Str)
}

/// Must whitespace separate `a` and `b` for them to stay two tokens (under a tokenizer that only
/// knows the two-character operators `<=`, `>=`, `!=`, `=>`, `::` and the comment start `--`)?
pub fn needs_space(a: &Tok, b: &Tok) -> bool {
    if word_like(a) && word_like(b) {
        return true;
    }
    // a number followed by `.` would continue the number; `.` followed by a number likewise
    if a.kind == TokKind::Num && b.text == "." || a.text == "." && b.kind == TokKind::Num {
        return true;
    }
    let la = a.text.chars().last().unwrap_or(' ');
    let fb = b.text.chars().next().unwrap_or(' ');
    let opchar = |c: char| "<>!=-+*/.:".contains(c);
    if a.kind != TokKind::Str && b.kind != TokKind::Str && opchar(la) && opchar(fb) {
        // only a minus that follows an operator not ending in '-' may be written tight
        if fb == '-' && b.text == "-" && la != '-' && la != ':' && la != '.' {
            return false;
        }
        return true;
    }
    false
}

/// Canonical text: single spaces between all tokens except after `(`/`[` and before `)`/`]`/`,`, and around `.`/`::`.
pub fn join_canonical(tokens: &[Tok]) -> String {
    let mut out = String::new();
    for (i, t) in tokens.iter().enumerate() {
        if i > 0 {
            let prev = &tokens[i - 1];
            let glue = matches!(prev.text.as_str(), "(" | "[" | "." | "::")
                || matches!(t.text.as_str(), ")" | "]" | "," | "." | "::")
                || (t.text == "(" && matches!(prev.kind, TokKind::Func))
                || (t.text == "[" && (prev.kind == TokKind::Ident || prev.kind == TokKind::Type || prev.text == "array" || prev.text == ")" || prev.text == "]"));
            if !glue || needs_space(prev, t) {
                out.push(' ');
            }
        }
        out.push_str(&t.text);
    }
    out
}

/// Tight text: whitespace only where the tokens would otherwise merge.
pub fn join_tight(tokens: &[Tok]) -> String {
    let mut out = String::new();
    for (i, t) in tokens.iter().enumerate() {
        if i > 0 && needs_space(&tokens[i - 1], t) {
            out.push(' ');
        }
        out.push_str(&t.text);
    }
    out
}

/// The text `base` (spaces only between tokens) with each single space outside string literals replaced by a
/// whitespace run chosen by `breaks` (cyclic): 0 = space, 1 = LF, 2 = tab, 3 = CRLF, 4 = LF + indentation, 5 = two spaces.
pub fn vary_whitespace(base: &str, breaks: &[u8]) -> String {
    if breaks.is_empty() {
        return base.to_string();
    }
    let mut out = String::new();
    let mut in_str = false;
    let mut escaped = false;
    let mut k = 0;
    for c in base.chars() {
        if in_str {
            out.push(c);
            if escaped {
                escaped = false;
            } else if c == '\\' {
                escaped = true;
            } else if c == '\'' {
                in_str = false;
            }
            continue;
        }
        if c == '\'' {
            in_str = true;
            out.push(c);
        } else if c == ' ' {
            out.push_str(match breaks[k % breaks.len()] {
                1 => "\n",
                2 => "\t",
                3 => "\r\n",
                4 => "\n    ",
                5 => "  ",
                _ => " ",
            });
            k += 1;
        } else {
            out.push(c);
        }
    }
    out
}

pub fn text_min(e: &E) -> String {
    join_canonical(&Renderer::minimal().expr(e))
}

pub fn text_full(e: &E) -> String {
    join_canonical(&Renderer::full().expr(e))
}
