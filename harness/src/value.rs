//! Reference value model and a small JSON reader (numbers keep their literal text, so INT is exact
//! and REAL is read with the correctly rounding `f64::from_str`, independent of serde_json).

use std::cmp::Ordering;

use serde::{Deserialize, Serialize};

#[derive(Clone, Debug, PartialEq, Serialize, Deserialize)]
pub enum V {
    Null,
    Int(i64),
    Real(f64),
    Bool(bool),
    Text(String),
    Array(Vec<V>),
    /// microseconds since the epoch (TZ=UTC: local time = instant)
    Ts(i64),
    /// microseconds
    Iv(i64),
}

impl V {
    pub fn is_null(&self) -> bool {
        matches!(self, V::Null)
    }

    pub fn type_name(&self) -> &'static str {
        match self {
            V::Null => "null",
            V::Int(_) => "int",
            V::Real(_) => "real",
            V::Bool(_) => "boolean",
            V::Text(_) => "text",
            V::Array(_) => "array",
            V::Ts(_) => "timestamp",
            V::Iv(_) => "interval",
        }
    }

    pub fn from_real(value: &sqlgrep::model::Value) -> V {
        use sqlgrep::model::Value;
        match value {
            Value::Null => V::Null,
            Value::Int(i) => V::Int(*i),
            Value::Float(f) => V::Real(f.0),
            Value::Bool(b) => V::Bool(*b),
            Value::String(s) => V::Text(s.clone()),
            Value::Array(_, items) => V::Array(items.iter().map(V::from_real).collect()),
            Value::Timestamp(t) => V::Ts(t.timestamp_micros()),
            Value::Interval(d) => V::Iv(d.num_microseconds().unwrap_or(i64::MAX)),
        }
    }

    /// Reference equality: numbers by value (INT vs REAL too), text by code point, NULL = NULL, ±0.0 equal.
    pub fn ref_eq(&self, other: &V) -> bool {
        self.ref_cmp(other) == Some(Ordering::Equal)
    }

    /// Reference order within one type (and INT/REAL numerically); NULL first. None = incomparable / NaN.
    pub fn ref_cmp(&self, other: &V) -> Option<Ordering> {
        match (self, other) {
            (V::Null, V::Null) => Some(Ordering::Equal),
            (V::Null, _) => Some(Ordering::Less),
            (_, V::Null) => Some(Ordering::Greater),
            (V::Int(a), V::Int(b)) => Some(a.cmp(b)),
            (V::Real(a), V::Real(b)) => a.partial_cmp(b),
            (V::Int(a), V::Real(b)) => cmp_int_real(*a, *b),
            (V::Real(a), V::Int(b)) => cmp_int_real(*b, *a).map(|o| o.reverse()),
            (V::Bool(a), V::Bool(b)) => Some(a.cmp(b)),
            (V::Text(a), V::Text(b)) => Some(a.as_bytes().cmp(b.as_bytes())),
            (V::Ts(a), V::Ts(b)) => Some(a.cmp(b)),
            (V::Iv(a), V::Iv(b)) => Some(a.cmp(b)),
            (V::Array(a), V::Array(b)) => {
                for (x, y) in a.iter().zip(b.iter()) {
                    match x.ref_cmp(y)? {
                        Ordering::Equal => {}
                        o => return Some(o),
                    }
                }
                Some(a.len().cmp(&b.len()))
            }
            _ => None,
        }
    }
}

fn cmp_int_real(i: i64, r: f64) -> Option<Ordering> {
    if r.is_nan() {
        return None;
    }
    // exact comparison through i128 / f64 ranges
    if r >= 9.3e18 {
        return Some(Ordering::Less);
    }
    if r <= -9.3e18 {
        return Some(Ordering::Greater);
    }
    let fl = r.floor();
    let fi = fl as i128;
    match (i as i128).cmp(&fi) {
        Ordering::Equal => {
            if r > fl {
                Some(Ordering::Less)
            } else {
                Some(Ordering::Equal)
            }
        }
        o => Some(o),
    }
}

// ---------------------------------------------------------------------------------------------
// text forms (what the printer documents for TIMESTAMP and INTERVAL)

/// `%Y-%m-%d %H:%M:%S.%3f` of an instant given in microseconds (UTC).
pub fn ts_text(micros: i64) -> String {
    let secs = micros.div_euclid(1_000_000);
    let sub = micros.rem_euclid(1_000_000);
    match chrono::DateTime::from_timestamp(secs, (sub * 1000) as u32) {
        Some(dt) => dt.naive_utc().format("%Y-%m-%d %H:%M:%S%.3f").to_string(),
        None => format!("<out of range {}>", micros),
    }
}

/// `HH:MM:SS.mmm` of a non-negative interval.
pub fn iv_text(micros: i64) -> String {
    let total_ms = micros.div_euclid(1000);
    let ms = total_ms % 1000;
    let total_s = total_ms / 1000;
    format!("{:0>2}:{:0>2}:{:0>2}.{:0>3}", total_s / 3600, (total_s / 60) % 60, total_s % 60, ms)
}

// ---------------------------------------------------------------------------------------------
// JSON reader

#[derive(Clone, Debug, PartialEq)]
pub enum J {
    Null,
    Bool(bool),
    /// literal text of the number
    Num(String),
    Str(String),
    Arr(Vec<J>),
    /// key order and duplicates preserved
    Obj(Vec<(String, J)>),
}

impl J {
    pub fn get(&self, key: &str) -> Option<&J> {
        match self {
            J::Obj(items) => items.iter().rev().find(|(k, _)| k == key).map(|(_, v)| v),
            _ => None,
        }
    }

    pub fn is_integer_literal(text: &str) -> bool {
        let t = text.strip_prefix('-').unwrap_or(text);
        !t.is_empty() && t.bytes().all(|b| b.is_ascii_digit())
    }
}

pub fn parse_json(text: &str) -> Result<J, String> {
    let chars: Vec<char> = text.chars().collect();
    let mut p = JsonParser { s: &chars, i: 0, depth: 0 };
    p.ws();
    let v = p.value()?;
    p.ws();
    if p.i != chars.len() {
        return Err(format!("trailing characters at {}", p.i));
    }
    Ok(v)
}

struct JsonParser<'a> {
    s: &'a [char],
    i: usize,
    depth: usize,
}

impl<'a> JsonParser<'a> {
    fn ws(&mut self) {
        while self.i < self.s.len() && matches!(self.s[self.i], ' ' | '\t' | '\n' | '\r') {
            self.i += 1;
        }
    }

    fn peek(&self) -> Option<char> {
        self.s.get(self.i).copied()
    }

    fn lit(&mut self, word: &str, v: J) -> Result<J, String> {
        let w: Vec<char> = word.chars().collect();
        if self.s.len() >= self.i + w.len() && self.s[self.i..self.i + w.len()] == w[..] {
            self.i += w.len();
            Ok(v)
        } else {
            Err(format!("bad literal at {}", self.i))
        }
    }

    fn value(&mut self) -> Result<J, String> {
        self.depth += 1;
        if self.depth > 2000 {
            return Err("too deep".to_string());
        }
        let r = match self.peek() {
            None => Err("unexpected end".to_string()),
            Some('n') => self.lit("null", J::Null),
            Some('t') => self.lit("true", J::Bool(true)),
            Some('f') => self.lit("false", J::Bool(false)),
            Some('"') => self.string().map(J::Str),
            Some('[') => {
                self.i += 1;
                let mut items = Vec::new();
                self.ws();
                if self.peek() == Some(']') {
                    self.i += 1;
                } else {
                    loop {
                        self.ws();
                        items.push(self.value()?);
                        self.ws();
                        match self.peek() {
                            Some(',') => self.i += 1,
                            Some(']') => {
                                self.i += 1;
                                break;
                            }
                            _ => return Err(format!("expected , or ] at {}", self.i)),
                        }
                    }
                }
                Ok(J::Arr(items))
            }
            Some('{') => {
                self.i += 1;
                let mut items = Vec::new();
                self.ws();
                if self.peek() == Some('}') {
                    self.i += 1;
                } else {
                    loop {
                        self.ws();
                        if self.peek() != Some('"') {
                            return Err(format!("expected key at {}", self.i));
                        }
                        let k = self.string()?;
                        self.ws();
                        if self.peek() != Some(':') {
                            return Err(format!("expected : at {}", self.i));
                        }
                        self.i += 1;
                        self.ws();
                        let v = self.value()?;
                        items.push((k, v));
                        self.ws();
                        match self.peek() {
                            Some(',') => self.i += 1,
                            Some('}') => {
                                self.i += 1;
                                break;
                            }
                            _ => return Err(format!("expected , or }} at {}", self.i)),
                        }
                    }
                }
                Ok(J::Obj(items))
            }
            Some(c) if c == '-' || c.is_ascii_digit() => self.number(),
            Some(c) => Err(format!("unexpected {:?} at {}", c, self.i)),
        };
        self.depth -= 1;
        r
    }

    fn number(&mut self) -> Result<J, String> {
        let start = self.i;
        if self.peek() == Some('-') {
            self.i += 1;
        }
        let int_start = self.i;
        while self.peek().map(|c| c.is_ascii_digit()).unwrap_or(false) {
            self.i += 1;
        }
        if self.i == int_start {
            return Err(format!("bad number at {}", start));
        }
        if self.s[int_start] == '0' && self.i - int_start > 1 {
            return Err(format!("leading zero at {}", start));
        }
        if self.peek() == Some('.') {
            self.i += 1;
            let f = self.i;
            while self.peek().map(|c| c.is_ascii_digit()).unwrap_or(false) {
                self.i += 1;
            }
            if self.i == f {
                return Err(format!("bad fraction at {}", start));
            }
        }
        if matches!(self.peek(), Some('e') | Some('E')) {
            self.i += 1;
            if matches!(self.peek(), Some('+') | Some('-')) {
                self.i += 1;
            }
            let e = self.i;
            while self.peek().map(|c| c.is_ascii_digit()).unwrap_or(false) {
                self.i += 1;
            }
            if self.i == e {
                return Err(format!("bad exponent at {}", start));
            }
        }
        Ok(J::Num(self.s[start..self.i].iter().collect()))
    }

    fn hex4(&mut self) -> Result<u32, String> {
        if self.i + 4 > self.s.len() {
            return Err("short \\u escape".to_string());
        }
        let h: String = self.s[self.i..self.i + 4].iter().collect();
        self.i += 4;
        u32::from_str_radix(&h, 16).map_err(|_| "bad \\u escape".to_string())
    }

    fn string(&mut self) -> Result<String, String> {
        self.i += 1; // opening quote
        let mut out = String::new();
        loop {
            let c = self.peek().ok_or_else(|| "unterminated string".to_string())?;
            self.i += 1;
            match c {
                '"' => return Ok(out),
                '\\' => {
                    let e = self.peek().ok_or_else(|| "unterminated escape".to_string())?;
                    self.i += 1;
                    match e {
                        '"' => out.push('"'),
                        '\\' => out.push('\\'),
                        '/' => out.push('/'),
                        'b' => out.push('\u{8}'),
                        'f' => out.push('\u{c}'),
                        'n' => out.push('\n'),
                        'r' => out.push('\r'),
                        't' => out.push('\t'),
                        'u' => {
                            let hi = self.hex4()?;
                            if (0xD800..0xDC00).contains(&hi) {
                                if self.peek() == Some('\\') && self.s.get(self.i + 1) == Some(&'u') {
                                    self.i += 2;
                                    let lo = self.hex4()?;
                                    if !(0xDC00..0xE000).contains(&lo) {
                                        return Err("bad surrogate pair".to_string());
                                    }
                                    let cp = 0x10000 + ((hi - 0xD800) << 10) + (lo - 0xDC00);
                                    out.push(char::from_u32(cp).ok_or_else(|| "bad code point".to_string())?);
                                } else {
                                    return Err("lone surrogate".to_string());
                                }
                            } else {
                                out.push(char::from_u32(hi).ok_or_else(|| "lone surrogate".to_string())?);
                            }
                        }
                        _ => return Err(format!("bad escape \\{}", e)),
                    }
                }
                c if (c as u32) < 0x20 => return Err("raw control character in string".to_string()),
                c => out.push(c),
            }
        }
    }
}

/// What a value must look like as a JSON output value. Returns a description on mismatch.
pub fn json_matches(expected: &V, got: &J) -> Result<(), String> {
    match (expected, got) {
        (V::Null, J::Null) => Ok(()),
        (V::Int(i), J::Num(text)) => {
            if J::is_integer_literal(text) && text.parse::<i64>().ok() == Some(*i) {
                Ok(())
            } else {
                Err(format!("expected INT {} got number {}", i, text))
            }
        }
        (V::Real(r), J::Num(text)) => {
            if !r.is_finite() {
                return Err(format!("non-finite REAL printed as {}", text));
            }
            if J::is_integer_literal(text) {
                return Err(format!("expected REAL {:?} got integer literal {}", r, text));
            }
            match text.parse::<f64>() {
                Ok(v) if v.to_bits() == r.to_bits() || (v == 0.0 && *r == 0.0 && v.is_sign_negative() == r.is_sign_negative()) => Ok(()),
                _ => Err(format!("expected REAL {:?} got {}", r, text)),
            }
        }
        (V::Real(r), J::Null) if !r.is_finite() => Ok(()),
        (V::Bool(b), J::Bool(c)) if b == c => Ok(()),
        (V::Text(s), J::Str(t)) if s == t => Ok(()),
        (V::Ts(m), J::Str(t)) if &ts_text(*m) == t => Ok(()),
        (V::Iv(m), J::Str(t)) if *m >= 0 && &iv_text(*m) == t => Ok(()),
        (V::Array(items), J::Arr(got)) => {
            if items.len() != got.len() {
                return Err(format!("array length {} vs {}", items.len(), got.len()));
            }
            for (e, g) in items.iter().zip(got.iter()) {
                json_matches(e, g)?;
            }
            Ok(())
        }
        _ => Err(format!("expected {:?} got {:?}", expected, got)),
    }
}
