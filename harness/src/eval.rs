//! Reference expression evaluator (DESIGN.md Appendix A). Written from the property statements and the
//! README only; shares no code with /repo. Result: a value, an error, or "unspecified" (neither the
//! property nor the README fixes the outcome: the sub-case is counted and never alarmed on).

use std::cmp::Ordering;
use std::collections::HashMap;

use crate::sql::{BinOp, E};
use crate::value::V;

/// development aid (VCHECK_UNSPEC_SURVEY=1): how often each "unspecified" site of the reference evaluator is reached
pub static UNSPEC_SURVEY: std::sync::Mutex<std::collections::BTreeMap<u32, u64>> = std::sync::Mutex::new(std::collections::BTreeMap::new());

fn survey_enabled() -> bool {
    static ON: std::sync::OnceLock<bool> = std::sync::OnceLock::new();
    *ON.get_or_init(|| std::env::var("VCHECK_UNSPEC_SURVEY").is_ok())
}

pub fn dump_unspec_survey() {
    if survey_enabled() {
        let m = UNSPEC_SURVEY.lock().unwrap();
        let mut v: Vec<(&u32, &u64)> = m.iter().collect();
        v.sort_by(|a, b| b.1.cmp(a.1));
        for (line, n) in v.iter().take(40) {
            eprintln!("unspecified site eval.rs:{} reached {} times", line, n);
        }
    }
}

#[derive(Clone, Debug, PartialEq)]
pub enum K {
    Val(V),
    Err,
    Unspec,
}

#[derive(Clone, Debug, PartialEq)]
pub struct Ev {
    pub k: K,
    /// an error is acceptable as well (a lazily skipped operand would have failed)
    pub or_err: bool,
    /// REAL result of a transcendental function: compare with a few ULP of tolerance
    pub approx: bool,
    /// array whose element order is free (array_unique)
    pub unordered: bool,
}

impl Ev {
    pub fn val(v: V) -> Ev {
        Ev { k: K::Val(v), or_err: false, approx: false, unordered: false }
    }
    pub fn err() -> Ev {
        Ev { k: K::Err, or_err: false, approx: false, unordered: false }
    }
    #[track_caller]
    pub fn unspec() -> Ev {
        if survey_enabled() {
            let line = std::panic::Location::caller().line();
            *UNSPEC_SURVEY.lock().unwrap().entry(line).or_insert(0) += 1;
        }
        Ev { k: K::Unspec, or_err: false, approx: false, unordered: false }
    }
    fn with_or_err(mut self, flag: bool) -> Ev {
        self.or_err |= flag;
        self
    }
    pub fn is_err(&self) -> bool {
        self.k == K::Err
    }
    pub fn is_unspec(&self) -> bool {
        self.k == K::Unspec
    }
}

pub struct Env<'a> {
    pub cols: &'a HashMap<String, V>,
}

pub fn parse_timestamp(text: &str) -> Option<i64> {
    use chrono::Timelike;
    // (second 60 is chrono's leap second notation, not a time of day)
    chrono::NaiveDateTime::parse_from_str(text, "%Y-%m-%d %H:%M:%S").ok().filter(|dt| dt.nanosecond() < 1_000_000_000).map(|dt| dt.and_utc().timestamp_micros())
}

pub fn parse_interval(text: &str) -> Option<i64> {
    let parts: Vec<&str> = text.split(':').collect();
    if parts.len() != 3 {
        return None;
    }
    let h: i64 = parts[0].parse().ok()?;
    let m: i64 = parts[1].parse().ok()?;
    let s: i64 = parts[2].parse().ok()?;
    let total = (h as i128) * 3600 + (m as i128) * 60 + s as i128;
    if total.abs() > 1_000_000_000_000 {
        return None;
    }
    Some(total as i64 * 1_000_000)
}

fn is_plain_decimal(text: &str) -> bool {
    // digits with optional sign, optional fraction, optional exponent: the unambiguous REAL literals
    let t = text.strip_prefix(['+', '-']).unwrap_or(text);
    let (mantissa, exp) = match t.find(['e', 'E']) {
        Some(i) => (&t[..i], Some(&t[i + 1..])),
        None => (t, None),
    };
    if let Some(e) = exp {
        let e = e.strip_prefix(['+', '-']).unwrap_or(e);
        if e.is_empty() || !e.bytes().all(|b| b.is_ascii_digit()) {
            return false;
        }
    }
    let digits = mantissa.bytes().filter(|b| b.is_ascii_digit()).count();
    let dots = mantissa.bytes().filter(|b| *b == b'.').count();
    digits >= 1 && dots <= 1 && mantissa.bytes().all(|b| b.is_ascii_digit() || b == b'.')
}

/// Literal recogniser of a declared type (used by casts and by extraction).
/// Ok(Some(v)) = literal; Ok(None) = not a literal; Err(()) = gray (unspecified).
pub fn parse_literal(ty: &str, text: &str) -> Result<Option<V>, ()> {
    match ty {
        "int" => {
            let t = text.strip_prefix(['+', '-']).unwrap_or(text);
            if !t.is_empty() && t.bytes().all(|b| b.is_ascii_digit()) {
                Ok(text.parse::<i64>().ok().map(V::Int))
            } else {
                Ok(None)
            }
        }
        "real" => {
            if is_plain_decimal(text) {
                match text.parse::<f64>() {
                    Ok(v) if v.is_finite() => Ok(Some(V::Real(v))),
                    // overflow to infinity (1e400): gray
                    Ok(_) => Err(()),
                    Err(_) => Ok(None),
                }
            } else {
                let l = text.to_ascii_lowercase();
                let l = l.strip_prefix(['+', '-']).unwrap_or(&l);
                if l == "inf" || l == "infinity" || l == "nan" {
                    Err(())
                } else {
                    Ok(None)
                }
            }
        }
        "boolean" => match text {
            "true" => Ok(Some(V::Bool(true))),
            "false" => Ok(Some(V::Bool(false))),
            _ => Ok(None),
        },
        "text" => Ok(Some(V::Text(text.to_string()))),
        "timestamp" => Ok(parse_timestamp(text).map(V::Ts)),
        "interval" => {
            // how large an interval may be is not documented: huge parts are gray (must not crash: C09)
            let parts: Vec<&str> = text.split(':').collect();
            if parts.len() == 3 && parts.iter().all(|p| p.parse::<i64>().is_ok()) && parse_interval(text).is_none() {
                return Err(());
            }
            Ok(parse_interval(text).map(V::Iv))
        }
        _ => Ok(None),
    }
}

fn int_result(v: i128) -> Ev {
    if v >= i64::MIN as i128 && v <= i64::MAX as i128 {
        Ev::val(V::Int(v as i64))
    } else {
        Ev::err()
    }
}

fn civil_from_micros(m: i64) -> Option<chrono::NaiveDateTime> {
    chrono::DateTime::from_timestamp(m.div_euclid(1_000_000), (m.rem_euclid(1_000_000) * 1000) as u32).map(|d| d.naive_utc())
}

pub fn make_ts(y: i64, mo: i64, d: i64, h: i64, mi: i64, s: i64, us: i64) -> Option<i64> {
    if !(i32::MIN as i64..=i32::MAX as i64).contains(&y) || !(0..=u32::MAX as i64).contains(&mo) || !(0..=u32::MAX as i64).contains(&d) {
        return None;
    }
    if !(0..24).contains(&h) || !(0..60).contains(&mi) || !(0..60).contains(&s) || !(0..1_000_000).contains(&us) {
        return None;
    }
    let date = chrono::NaiveDate::from_ymd_opt(y as i32, mo as u32, d as u32)?;
    let time = chrono::NaiveTime::from_hms_micro_opt(h as u32, mi as u32, s as u32, us as u32)?;
    Some(chrono::NaiveDateTime::new(date, time).and_utc().timestamp_micros())
}

pub struct Evaluator<'a> {
    pub env: Env<'a>,
}

impl<'a> Evaluator<'a> {
    pub fn new(cols: &'a HashMap<String, V>) -> Evaluator<'a> {
        Evaluator { env: Env { cols } }
    }

    pub fn eval(&self, e: &E) -> Ev {
        match e {
            E::Int(i) => Ev::val(V::Int(*i)),
            E::Real(s) => match s.parse::<f64>() {
                Ok(v) => Ev::val(V::Real(v)),
                Err(_) => Ev::unspec(),
            },
            E::Str(s) => Ev::val(V::Text(s.clone())),
            E::Null => Ev::val(V::Null),
            E::True => Ev::val(V::Bool(true)),
            E::False => Ev::val(V::Bool(false)),
            E::Star | E::Agg(_, _, _) => Ev::unspec(),
            E::Col(name) => match self.env.cols.get(name) {
                Some(v) => Ev::val(v.clone()),
                None => Ev::err(),
            },
            E::Neg(a) => {
                let a = self.eval(a);
                self.un(a, |v| match v {
                    V::Null => Ev::val(V::Null),
                    V::Int(i) => match i.checked_neg() {
                        Some(n) => Ev::val(V::Int(n)),
                        None => Ev::err(),
                    },
                    V::Real(r) => Ev::val(V::Real(-r)),
                    V::Iv(_) => Ev::unspec(),
                    _ => Ev::err(),
                })
            }
            E::Not(a) => {
                let a = self.eval(a);
                self.un(a, |v| match v {
                    V::Bool(b) => Ev::val(V::Bool(!b)),
                    _ => Ev::unspec(),
                })
            }
            E::Bin(op, l, r) if op.is_bool() => self.boolean(*op, l, r),
            E::Bin(op, l, r) => {
                let l = self.eval(l);
                let r = self.eval(r);
                self.bin2(l, r, |a, b| if op.is_cmp() { compare(*op, a, b) } else { arithmetic(*op, a, b) })
            }
            E::Is { not, l, r } => {
                let lv = self.eval(l);
                if **r != E::Null {
                    // IS <value>: not fixed by the property
                    let rv = self.eval(r);
                    if lv.is_err() || rv.is_err() {
                        return Ev::err();
                    }
                    return Ev::unspec();
                }
                self.un(lv, |v| Ev::val(V::Bool(v.is_null() != *not)))
            }
            E::In { not, x, list } => self.in_list(*not, x, list),
            E::Cast(a, ty) => {
                let a = self.eval(a);
                let ty = ty.to_ascii_lowercase();
                self.un(a, |v| cast(v, &ty))
            }
            E::Index(a, i) => {
                let a = self.eval(a);
                if a.is_err() {
                    return Ev::err();
                }
                // the index is only evaluated for an array
                match &a.k {
                    K::Val(V::Array(_)) => {}
                    K::Val(V::Null) | K::Unspec => return Ev::unspec(),
                    _ => return Ev::err(),
                }
                let i = self.eval(i);
                self.bin2(a, i, |a, i| match (a, i) {
                    (V::Array(items), V::Int(i)) => {
                        if *i >= 1 && (*i as usize) <= items.len() {
                            Ev::val(items[*i as usize - 1].clone())
                        } else {
                            Ev::unspec()
                        }
                    }
                    (V::Array(_), V::Null) => Ev::unspec(),
                    _ => Ev::err(),
                })
            }
            E::Call(name, args) => self.call(&name.to_ascii_lowercase(), args),
            E::Extract(part, a) => {
                let a = self.eval(a);
                let part = part.to_ascii_lowercase();
                self.un(a, |v| match v {
                    V::Ts(m) => extract(&part, *m),
                    V::Null => Ev::unspec(),
                    _ => Ev::err(),
                })
            }
            E::Array(items) => {
                let evs: Vec<Ev> = items.iter().map(|i| self.eval(i)).collect();
                if evs.iter().any(|e| e.is_err()) {
                    return Ev::err();
                }
                if evs.iter().any(|e| e.is_unspec() || e.approx || e.unordered) {
                    return Ev::unspec();
                }
                let or_err = evs.iter().any(|e| e.or_err);
                let vals: Vec<V> = evs.into_iter().map(|e| if let K::Val(v) = e.k { v } else { V::Null }).collect();
                let types: Vec<&'static str> = vals.iter().filter(|v| !v.is_null()).map(|v| v.type_name()).collect();
                if types.is_empty() {
                    return Ev::err();
                }
                if types.iter().any(|t| *t != types[0]) {
                    return Ev::err();
                }
                if types[0] == "array" {
                    return Ev::unspec();
                }
                Ev::val(V::Array(vals)).with_or_err(or_err)
            }
            E::Case(clauses, els) => {
                let mut or_err = false;
                let mut chosen: Option<Ev> = None;
                for (c, r) in clauses {
                    let cv = self.eval(c);
                    let rv = self.eval(r);
                    if chosen.is_some() {
                        // lazily skipped: an eager evaluator may fail here
                        if cv.is_err() || rv.is_err() || cv.is_unspec() || rv.is_unspec() || cv.or_err || rv.or_err {
                            or_err = true;
                        }
                        continue;
                    }
                    match &cv.k {
                        K::Err => {
                            chosen = Some(Ev::err());
                        }
                        K::Unspec => chosen = Some(Ev::unspec()),
                        K::Val(V::Bool(true)) => {
                            or_err |= cv.or_err;
                            chosen = Some(rv);
                        }
                        K::Val(V::Bool(false)) => {
                            or_err |= cv.or_err;
                            if rv.is_err() || rv.is_unspec() || rv.or_err {
                                or_err = true;
                            }
                        }
                        K::Val(_) => chosen = Some(Ev::unspec()),
                    }
                }
                let ev = self.eval(els);
                match chosen {
                    Some(c) => {
                        if ev.is_err() || ev.is_unspec() || ev.or_err {
                            or_err = true;
                        }
                        c.with_or_err(or_err)
                    }
                    None => ev.with_or_err(or_err),
                }
            }
        }
    }

    fn un(&self, a: Ev, f: impl Fn(&V) -> Ev) -> Ev {
        match &a.k {
            K::Err => Ev::err(),
            K::Unspec => Ev::unspec(),
            K::Val(v) => {
                if a.approx || a.unordered {
                    return Ev::unspec();
                }
                f(v).with_or_err(a.or_err)
            }
        }
    }

    fn bin2(&self, a: Ev, b: Ev, f: impl Fn(&V, &V) -> Ev) -> Ev {
        if a.is_err() || b.is_err() {
            return Ev::err();
        }
        match (&a.k, &b.k) {
            (K::Val(x), K::Val(y)) => {
                if a.approx || b.approx || a.unordered || b.unordered {
                    return Ev::unspec();
                }
                f(x, y).with_or_err(a.or_err || b.or_err)
            }
            _ => Ev::unspec(),
        }
    }

    fn boolean(&self, op: BinOp, l: &E, r: &E) -> Ev {
        let lv = self.eval(l);
        let rv = self.eval(r);
        let lb = match &lv.k {
            K::Err => return Ev::err(),
            K::Unspec => return Ev::unspec(),
            K::Val(V::Bool(b)) => *b,
            K::Val(_) => {
                // non-boolean / NULL operand: unspecified (false, NULL or error)
                return Ev::unspec();
            }
        };
        let decides = (op == BinOp::And && !lb) || (op == BinOp::Or && lb);
        if decides {
            // right operand skipped by a lazy evaluator; an eager one may fail on it
            let risky = rv.is_err() || rv.is_unspec() || rv.or_err || !matches!(rv.k, K::Val(V::Bool(_)));
            return Ev::val(V::Bool(lb)).with_or_err(lv.or_err || risky);
        }
        match &rv.k {
            K::Err => Ev::err(),
            K::Unspec => Ev::unspec(),
            K::Val(V::Bool(b)) => Ev::val(V::Bool(*b)).with_or_err(lv.or_err || rv.or_err),
            K::Val(_) => Ev::unspec(),
        }
    }

    fn in_list(&self, not: bool, x: &E, list: &[E]) -> Ev {
        let xv = self.eval(x);
        if xv.is_err() {
            return Ev::err();
        }
        if xv.is_unspec() || xv.approx || xv.unordered {
            return Ev::unspec();
        }
        let xval = if let K::Val(v) = &xv.k { v.clone() } else { unreachable!() };
        let mut or_err = xv.or_err;
        let mut found = false;
        let mut any_null = xval.is_null();
        for item in list {
            let iv = self.eval(item);
            if found {
                if iv.is_err() || iv.is_unspec() || iv.or_err {
                    or_err = true;
                }
                continue;
            }
            match &iv.k {
                K::Err => return Ev::err().with_or_err(false),
                K::Unspec => return Ev::unspec(),
                K::Val(v) => {
                    if iv.approx || iv.unordered {
                        return Ev::unspec();
                    }
                    or_err |= iv.or_err;
                    if v.is_null() || xval.is_null() {
                        any_null = true;
                        continue;
                    }
                    let c = compare(BinOp::Eq, &xval, v);
                    match c.k {
                        K::Err => return Ev::err(),
                        K::Unspec => return Ev::unspec(),
                        K::Val(V::Bool(true)) => found = true,
                        _ => {}
                    }
                }
            }
        }
        // x IN (..) = OR of x = v ; x NOT IN (..) = AND of x != v (false as soon as a NULL takes part and nothing matched... or matched)
        let result = if not { !found && !any_null } else { found };
        Ev::val(V::Bool(result)).with_or_err(or_err)
    }

    fn call(&self, name: &str, args: &[E]) -> Ev {
        let evs: Vec<Ev> = args.iter().map(|a| self.eval(a)).collect();
        if evs.iter().any(|e| e.is_err()) {
            return Ev::err();
        }
        if evs.iter().any(|e| e.is_unspec() || e.approx || e.unordered) {
            return Ev::unspec();
        }
        let or_err = evs.iter().any(|e| e.or_err);
        let vals: Vec<V> = evs.into_iter().map(|e| if let K::Val(v) = e.k { v } else { V::Null }).collect();
        let any_null = vals.iter().any(|v| v.is_null());
        let r = match (name, vals.as_slice()) {
            ("least", [a, b]) | ("greatest", [a, b]) => {
                if any_null {
                    Ev::unspec()
                } else {
                    match (a, b) {
                        (V::Int(_), V::Int(_)) | (V::Iv(_), V::Iv(_)) | (V::Ts(_), V::Ts(_)) => {
                            let less = a.ref_cmp(b) != Some(Ordering::Greater);
                            Ev::val(if (name == "least") == less { a.clone() } else { b.clone() })
                        }
                        (V::Real(x), V::Real(y)) => {
                            if x.is_nan() || y.is_nan() || (*x == 0.0 && *y == 0.0) {
                                Ev::unspec()
                            } else {
                                Ev::val(V::Real(if name == "least" { x.min(*y) } else { x.max(*y) }))
                            }
                        }
                        (V::Int(_), V::Real(_)) | (V::Real(_), V::Int(_)) => Ev::unspec(),
                        _ => Ev::err(),
                    }
                }
            }
            ("abs", [a]) => match a {
                V::Null => Ev::unspec(),
                V::Int(i) => match i.checked_abs() {
                    Some(v) => Ev::val(V::Int(v)),
                    None => Ev::err(),
                },
                V::Real(r) => Ev::val(V::Real(r.abs())),
                V::Iv(m) => match m.checked_abs() {
                    Some(v) => Ev::val(V::Iv(v)),
                    None => Ev::unspec(),
                },
                _ => Ev::err(),
            },
            ("sqrt", [a]) => match a {
                V::Null | V::Int(_) => Ev::unspec(),
                V::Real(r) => {
                    if *r >= 0.0 {
                        Ev::val(V::Real(r.sqrt()))
                    } else {
                        Ev::unspec()
                    }
                }
                _ => Ev::err(),
            },
            ("pow", [a, b]) => match (a, b) {
                (V::Real(x), V::Real(y)) => {
                    let v = x.powf(*y);
                    if v.is_finite() {
                        let mut e = Ev::val(V::Real(v));
                        e.approx = true;
                        e
                    } else {
                        Ev::unspec()
                    }
                }
                (V::Int(x), V::Int(y)) => {
                    if *y < 0 {
                        Ev::unspec()
                    } else {
                        // exact or error
                        let mut acc: i128 = 1;
                        let mut overflow = false;
                        let mut n = *y;
                        if *x == 0 || *x == 1 {
                            acc = if *x == 0 && n > 0 { 0 } else { 1 };
                        } else if *x == -1 {
                            acc = if n % 2 == 0 { 1 } else { -1 };
                        } else {
                            while n > 0 {
                                acc *= *x as i128;
                                if acc.abs() > (1i128 << 64) {
                                    overflow = true;
                                    break;
                                }
                                n -= 1;
                            }
                        }
                        // README documents pow for REAL only: for INT an exact result or an error is accepted, never a wrong value
                        if overflow {
                            Ev::err()
                        } else {
                            int_result(acc).with_or_err(true)
                        }
                    }
                }
                _ if any_null => Ev::unspec(),
                (V::Int(_), V::Real(_)) | (V::Real(_), V::Int(_)) => Ev::unspec(),
                _ => Ev::err(),
            },
            ("regexp_matches", [a, b]) | ("regex_matches", [a, b]) => match (a, b) {
                (V::Text(s), V::Text(p)) => match regex::Regex::new(p) {
                    Ok(re) => Ev::val(V::Bool(re.is_match(s))),
                    Err(_) => Ev::err(),
                },
                _ if any_null => Ev::unspec(),
                _ => Ev::err(),
            },
            ("length", [a]) => match a {
                V::Text(s) => Ev::val(V::Int(s.chars().count() as i64)),
                V::Null => Ev::unspec(),
                _ => Ev::err(),
            },
            ("upper", [a]) | ("lower", [a]) => match a {
                V::Text(s) => Ev::val(V::Text(if name == "upper" { s.to_uppercase() } else { s.to_lowercase() })),
                V::Null => Ev::unspec(),
                _ => Ev::err(),
            },
            ("array_length", [a]) => match a {
                V::Array(items) => Ev::val(V::Int(items.len() as i64)),
                V::Null => Ev::unspec(),
                _ => Ev::err(),
            },
            ("array_unique", [a]) => match a {
                V::Array(items) => {
                    let mut out: Vec<V> = Vec::new();
                    for it in items {
                        if !out.iter().any(|o| o.ref_eq(it)) {
                            out.push(it.clone());
                        }
                    }
                    let mut e = Ev::val(V::Array(out));
                    e.unordered = true;
                    e
                }
                V::Null => Ev::unspec(),
                _ => Ev::err(),
            },
            ("array_cat", [a, b]) => match (a, b) {
                (V::Array(x), V::Array(y)) => {
                    if elem_compatible(x, y) {
                        let mut v = x.clone();
                        v.extend(y.iter().cloned());
                        Ev::val(V::Array(v))
                    } else if elem_type(x).is_none() || elem_type(y).is_none() {
                        // the element type of an array without non-NULL elements is only known to the implementation
                        Ev::unspec()
                    } else {
                        Ev::err()
                    }
                }
                _ if any_null => Ev::unspec(),
                _ => Ev::err(),
            },
            ("array_append", [a, b]) | ("array_prepend", [b, a]) => match (a, b) {
                (V::Array(x), v) if !matches!(v, V::Array(_)) => {
                    if v.is_null() {
                        Ev::unspec()
                    } else {
                        match elem_type(x) {
                            None => Ev::unspec(),
                            Some(t) if t == v.type_name() => {
                                let mut out = x.clone();
                                if name == "array_append" {
                                    out.push(v.clone());
                                } else {
                                    out.insert(0, v.clone());
                                }
                                Ev::val(V::Array(out))
                            }
                            Some(_) => Ev::err(),
                        }
                    }
                }
                _ if any_null => Ev::unspec(),
                _ => Ev::err(),
            },
            ("make_timestamp", [y, mo, d, h, mi, s, us]) => match (y, mo, d, h, mi, s, us) {
                // (1_000_000..2_000_000 microseconds at second 59 are out of range like anywhere else, not a leap second)
                // the ends of the range of representable instants are not documented (totality there is C09's business)
                (V::Int(y), _, _, _, _, _, _) if y.abs() > 100_000 => Ev::unspec(),
                (V::Int(y), V::Int(mo), V::Int(d), V::Int(h), V::Int(mi), V::Int(s), V::Int(us)) => match make_ts(*y, *mo, *d, *h, *mi, *s, *us) {
                    Some(m) => Ev::val(V::Ts(m)),
                    // out of range: NULL or error, never another date
                    None => Ev { k: K::Val(V::Null), or_err: true, approx: false, unordered: false },
                },
                _ if any_null => Ev::unspec(),
                _ => Ev::err(),
            },
            ("date_trunc", [p, ts]) => match (p, ts) {
                (V::Text(p), V::Ts(m)) => date_trunc(p, *m),
                _ if any_null => Ev::unspec(),
                _ => Ev::err(),
            },
            _ => Ev::unspec(),
        };
        r.with_or_err(or_err)
    }
}

fn elem_type(items: &[V]) -> Option<&'static str> {
    items.iter().find(|v| !v.is_null()).map(|v| v.type_name())
}

fn elem_compatible(x: &[V], y: &[V]) -> bool {
    match (elem_type(x), elem_type(y)) {
        (Some(a), Some(b)) => a == b,
        _ => false,
    }
}

pub fn compare(op: BinOp, a: &V, b: &V) -> Ev {
    if a.is_null() || b.is_null() {
        return Ev::val(V::Bool(false));
    }
    let decide = |o: Ordering| {
        Ev::val(V::Bool(match op {
            BinOp::Eq => o == Ordering::Equal,
            BinOp::Ne => o != Ordering::Equal,
            BinOp::Lt => o == Ordering::Less,
            BinOp::Le => o != Ordering::Greater,
            BinOp::Gt => o == Ordering::Greater,
            BinOp::Ge => o != Ordering::Less,
            _ => false,
        }))
    };
    match (a, b) {
        (V::Int(_), V::Int(_)) | (V::Text(_), V::Text(_)) | (V::Ts(_), V::Ts(_)) | (V::Iv(_), V::Iv(_)) => decide(a.ref_cmp(b).unwrap()),
        (V::Real(x), V::Real(y)) => {
            if x.is_nan() || y.is_nan() {
                Ev::unspec()
            } else {
                decide(x.partial_cmp(y).unwrap())
            }
        }
        (V::Int(i), V::Real(r)) | (V::Real(r), V::Int(i)) => {
            if i.unsigned_abs() > (1u64 << 53) || r.is_nan() {
                Ev::unspec()
            } else {
                decide(a.ref_cmp(b).unwrap())
            }
        }
        (V::Bool(x), V::Bool(y)) => match op {
            BinOp::Eq => Ev::val(V::Bool(x == y)),
            BinOp::Ne => Ev::val(V::Bool(x != y)),
            _ => Ev::unspec(),
        },
        (V::Ts(_), V::Text(_)) | (V::Text(_), V::Ts(_)) => {
            let (ts, text) = if let (V::Ts(t), V::Text(s)) = (a, b) { (*t, s) } else if let (V::Text(s), V::Ts(t)) = (a, b) { (*t, s) } else { unreachable!() };
            match parse_timestamp(text) {
                Some(p) => {
                    let (l, r) = if matches!(a, V::Ts(_)) { (ts, p) } else { (p, ts) };
                    decide(l.cmp(&r))
                }
                None => Ev::unspec(),
            }
        }
        (V::Array(x), V::Array(y)) => match op {
            BinOp::Eq | BinOp::Ne => {
                if x.iter().chain(y.iter()).any(|v| v.is_null() || matches!(v, V::Real(_) | V::Array(_))) || !elem_compatible(x, y) {
                    Ev::unspec()
                } else {
                    let eq = x.len() == y.len() && x.iter().zip(y.iter()).all(|(p, q)| p.ref_eq(q));
                    Ev::val(V::Bool(eq == (op == BinOp::Eq)))
                }
            }
            _ => Ev::unspec(),
        },
        _ => Ev::err(),
    }
}

pub fn arithmetic(op: BinOp, a: &V, b: &V) -> Ev {
    if a.is_null() || b.is_null() {
        return Ev::val(V::Null);
    }
    match (a, b) {
        (V::Int(x), V::Int(y)) => {
            let (x, y) = (*x as i128, *y as i128);
            match op {
                BinOp::Add => int_result(x + y),
                BinOp::Sub => int_result(x - y),
                BinOp::Mul => int_result(x * y),
                BinOp::Div => {
                    if y == 0 {
                        Ev::err()
                    } else {
                        // SQL integer division truncates toward zero
                        int_result(x / y)
                    }
                }
                _ => Ev::err(),
            }
        }
        (V::Real(x), V::Real(y)) => {
            let v = match op {
                BinOp::Add => x + y,
                BinOp::Sub => x - y,
                BinOp::Mul => x * y,
                BinOp::Div => {
                    if *y == 0.0 {
                        return Ev::unspec();
                    }
                    x / y
                }
                _ => return Ev::err(),
            };
            if v.is_finite() {
                Ev::val(V::Real(v))
            } else {
                Ev::unspec()
            }
        }
        (V::Int(_), V::Real(_)) | (V::Real(_), V::Int(_)) => Ev::unspec(),
        (V::Ts(t), V::Iv(i)) => match op {
            BinOp::Add => Ev::val(V::Ts(t + i)),
            BinOp::Sub => Ev::val(V::Ts(t - i)),
            _ => Ev::err(),
        },
        (V::Iv(i), V::Ts(t)) => match op {
            BinOp::Add => Ev::val(V::Ts(t + i)),
            _ => Ev::err(),
        },
        (V::Ts(x), V::Ts(y)) => match op {
            BinOp::Sub => {
                if x >= y {
                    Ev::val(V::Iv(x - y))
                } else {
                    Ev::unspec()
                }
            }
            _ => Ev::err(),
        },
        (V::Iv(x), V::Iv(y)) => match op {
            BinOp::Add => Ev::val(V::Iv(x + y)),
            BinOp::Sub => {
                if x >= y {
                    Ev::val(V::Iv(x - y))
                } else {
                    Ev::unspec()
                }
            }
            _ => Ev::err(),
        },
        _ => Ev::err(),
    }
}

pub fn cast(v: &V, ty: &str) -> Ev {
    match (v, ty) {
        (V::Null, _) => Ev::unspec(),
        (V::Text(s), _) => match parse_literal(ty, s) {
            Ok(Some(v)) => Ev::val(v),
            Ok(None) => Ev::err(),
            Err(()) => Ev::unspec(),
        },
        (V::Int(_), "int") | (V::Real(_), "real") | (V::Bool(_), "boolean") | (V::Ts(_), "timestamp") | (V::Iv(_), "interval") => Ev::val(v.clone()),
        (V::Int(i), "text") => Ev::val(V::Text(i.to_string())),
        (V::Bool(b), "text") => Ev::val(V::Text(b.to_string())),
        (V::Iv(m), "int") => {
            if *m >= 0 {
                Ev::val(V::Int(m / 1_000_000))
            } else {
                Ev::unspec()
            }
        }
        (V::Iv(m), "real") => {
            if *m >= 0 {
                Ev::val(V::Real((m / 1000) as f64 / 1000.0))
            } else {
                Ev::unspec()
            }
        }
        _ => Ev::unspec(),
    }
}

fn extract(part: &str, m: i64) -> Ev {
    use chrono::{Datelike, Timelike};
    let dt = match civil_from_micros(m) {
        Some(d) => d,
        None => return Ev::unspec(),
    };
    match part {
        "epoch" => {
            if m % 1000 != 0 {
                Ev::unspec()
            } else {
                Ev::val(V::Real((m / 1000) as f64 / 1000.0))
            }
        }
        "year" => Ev::val(V::Int(dt.year() as i64)),
        "month" => Ev::val(V::Int(dt.month() as i64)),
        "day" => Ev::val(V::Int(dt.day() as i64)),
        "hour" => Ev::val(V::Int(dt.hour() as i64)),
        "minute" => Ev::val(V::Int(dt.minute() as i64)),
        "second" => Ev::val(V::Int(dt.second() as i64)),
        _ => Ev::unspec(),
    }
}

fn date_trunc(part: &str, m: i64) -> Ev {
    use chrono::{Datelike, NaiveDate};
    let unit = match part {
        "hour" => Some(3_600_000_000i64),
        "minute" => Some(60_000_000),
        "second" => Some(1_000_000),
        "milliseconds" => Some(1_000),
        "microseconds" => Some(1),
        _ => None,
    };
    if let Some(u) = unit {
        if m < 0 {
            return Ev::unspec();
        }
        return Ev::val(V::Ts(m - m.rem_euclid(u)));
    }
    let dt = match civil_from_micros(m) {
        Some(d) => d,
        None => return Ev::unspec(),
    };
    let date = match part {
        "year" => NaiveDate::from_ymd_opt(dt.year(), 1, 1),
        "month" => NaiveDate::from_ymd_opt(dt.year(), dt.month(), 1),
        "day" => Some(dt.date()),
        _ => return Ev::err(),
    };
    match date {
        Some(d) => Ev::val(V::Ts(d.and_hms_opt(0, 0, 0).unwrap().and_utc().timestamp_micros())),
        None => Ev::unspec(),
    }
}

/// Does an observed value satisfy the expectation? (array order free when `unordered`, REAL within 4 ULP when `approx`)
pub fn value_matches(ev: &Ev, got: &crate::value::J) -> Result<(), String> {
    use crate::value::{json_matches, J};
    let want = match &ev.k {
        K::Val(v) => v,
        _ => return Ok(()),
    };
    if ev.approx {
        if let (V::Real(w), J::Num(text)) = (want, got) {
            if let Ok(g) = text.parse::<f64>() {
                let ulp = (w.abs() * f64::EPSILON).max(f64::MIN_POSITIVE);
                if (g - w).abs() <= 4.0 * ulp {
                    return Ok(());
                }
            }
            return Err(format!("expected about {:?} got {:?}", w, got));
        }
    }
    if ev.unordered {
        if let (V::Array(w), J::Arr(g)) = (want, got) {
            if w.len() != g.len() {
                return Err(format!("expected the {} distinct elements of {:?}, got {:?}", w.len(), w, g));
            }
            let mut used = vec![false; g.len()];
            for item in w {
                let mut ok = false;
                for (i, gi) in g.iter().enumerate() {
                    if !used[i] && json_matches(item, gi).is_ok() {
                        used[i] = true;
                        ok = true;
                        break;
                    }
                }
                if !ok {
                    return Err(format!("element {:?} missing from {:?}", item, g));
                }
            }
            return Ok(());
        }
    }
    json_matches(want, got)
}
