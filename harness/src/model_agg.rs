//! Reference GROUP BY / aggregate executor: filter, bucket by key, order buckets, fold every aggregate from
//! the bucket's rows as the statement says.

use std::cmp::Ordering;
use std::collections::HashMap;

use crate::eval::*;
use crate::sql::*;
use crate::stmt::Select;
use crate::value::V;

/// One input row as the statement sees it.
pub struct RowCtx {
    pub env: HashMap<String, V>,
}

#[derive(Debug, Clone, PartialEq)]
pub enum Cell {
    /// exactly this value
    Exact(Ev),
    /// a REAL within relative/absolute tolerance
    Approx(f64, f64),
    /// one of several acceptable values
    OneOf(Vec<V>),
    /// not judged
    Any,
}

#[derive(Debug)]
pub enum TableOutcome {
    /// rows in output order
    Rows(Vec<Vec<Cell>>),
    /// zero or one row (no GROUP BY and nothing passed WHERE)
    ZeroOrOne,
    Error(String),
    Unspec,
}

fn find_agg(e: &E) -> Option<&E> {
    let mut found = None;
    e.visit(&mut |n| {
        if found.is_none() && matches!(n, E::Agg(_, _, _)) {
            found = Some(n);
        }
    });
    found
}

fn replace_aggs(e: &E, f: &mut dyn FnMut(&E) -> E) -> E {
    match e {
        E::Agg(_, _, _) => f(e),
        E::Neg(a) => E::Neg(Box::new(replace_aggs(a, f))),
        E::Not(a) => E::Not(Box::new(replace_aggs(a, f))),
        E::Bin(o, l, r) => E::Bin(*o, Box::new(replace_aggs(l, f)), Box::new(replace_aggs(r, f))),
        E::Is { not, l, r } => E::Is { not: *not, l: Box::new(replace_aggs(l, f)), r: Box::new(replace_aggs(r, f)) },
        E::In { not, x, list } => E::In { not: *not, x: Box::new(replace_aggs(x, f)), list: list.iter().map(|i| replace_aggs(i, f)).collect() },
        E::Cast(a, t) => E::Cast(Box::new(replace_aggs(a, f)), t.clone()),
        E::Index(a, i) => E::Index(Box::new(replace_aggs(a, f)), Box::new(replace_aggs(i, f))),
        E::Call(n, args) => E::Call(n.clone(), args.iter().map(|a| replace_aggs(a, f)).collect()),
        E::Case(cl, els) => E::Case(cl.iter().map(|(c, r)| (replace_aggs(c, f), replace_aggs(r, f))).collect(), Box::new(replace_aggs(els, f))),
        E::Array(items) => E::Array(items.iter().map(|a| replace_aggs(a, f)).collect()),
        E::Extract(p, a) => E::Extract(p.clone(), Box::new(replace_aggs(a, f))),
        other => other.clone(),
    }
}

enum Fold {
    Cell(Cell),
    Error(String),
    Unspec,
}

fn fold(agg: &E, rows: &[&RowCtx]) -> Fold {
    let (name, distinct, args) = match agg {
        E::Agg(n, d, a) => (n.to_ascii_lowercase(), *d, a),
        _ => return Fold::Unspec,
    };
    let exact = |v: V| Fold::Cell(Cell::Exact(Ev::val(v)));
    if name == "count" {
        if args.is_empty() || args[0] == E::Star {
            if distinct {
                return Fold::Error("COUNT(DISTINCT) needs a column".into());
            }
            return exact(V::Int(rows.len() as i64));
        }
    }
    // argument values in arrival order
    let mut values: Vec<V> = Vec::new();
    for r in rows {
        let ev = Evaluator::new(&r.env).eval(&args[0]);
        match ev.k {
            K::Err => return Fold::Error(format!("argument of {} has no value", name)),
            K::Unspec => return Fold::Unspec,
            K::Val(v) => {
                if ev.approx || ev.unordered || ev.or_err {
                    return Fold::Unspec;
                }
                values.push(v)
            }
        }
    }
    let non_null: Vec<&V> = values.iter().filter(|v| !v.is_null()).collect();
    let same_type = |tys: &[&str]| non_null.iter().all(|v| tys.contains(&v.type_name())) && non_null.windows(2).all(|w| w[0].type_name() == w[1].type_name());
    match name.as_str() {
        "count" => {
            if distinct {
                let mut seen: Vec<&V> = Vec::new();
                for v in &non_null {
                    if matches!(v, V::Real(r) if r.is_nan() || *r == 0.0) {
                        return Fold::Unspec;
                    }
                    if !seen.iter().any(|s| s.ref_eq(v)) {
                        seen.push(v);
                    }
                }
                exact(V::Int(seen.len() as i64))
            } else {
                exact(V::Int(non_null.len() as i64))
            }
        }
        "sum" => {
            if non_null.is_empty() {
                return exact(V::Null);
            }
            if non_null.iter().all(|v| matches!(v, V::Int(_) | V::Real(_))) && non_null.iter().any(|v| matches!(v, V::Int(_))) && non_null.iter().any(|v| matches!(v, V::Real(_))) {
                // INT and REAL values mixed (e.g. from a CASE): the numeric sum
                let acc: f64 = non_null.iter().map(|v| match v { V::Int(i) => *i as f64, V::Real(r) => *r, _ => 0.0 }).sum();
                return if acc.is_finite() && acc.abs() < 1e15 { Fold::Cell(Cell::Approx(acc, 1e-9)) } else { Fold::Unspec };
            }
            if !same_type(&["int", "real", "interval"]) {
                return Fold::Unspec;
            }
            match non_null[0] {
                V::Int(_) => {
                    let mut acc: i128 = 0;
                    let mut overflowed = false;
                    for v in &non_null {
                        if let V::Int(i) = v {
                            acc += *i as i128;
                            if acc > i64::MAX as i128 || acc < i64::MIN as i128 {
                                overflowed = true;
                            }
                        }
                    }
                    if overflowed {
                        // a running sum left the range: an error is due (the final sum may be back in range: either is accepted)
                        if acc >= i64::MIN as i128 && acc <= i64::MAX as i128 {
                            let mut e = Ev::val(V::Int(acc as i64));
                            e.or_err = true;
                            Fold::Cell(Cell::Exact(e))
                        } else {
                            Fold::Error("SUM overflows".into())
                        }
                    } else {
                        exact(V::Int(acc as i64))
                    }
                }
                V::Real(_) => {
                    let mut acc = 0.0f64;
                    for v in &non_null {
                        if let V::Real(r) = v {
                            acc += r;
                        }
                    }
                    if acc.is_finite() {
                        Fold::Cell(Cell::Approx(acc, 1e-12))
                    } else {
                        Fold::Unspec
                    }
                }
                V::Iv(_) => {
                    let mut acc: i64 = 0;
                    for v in &non_null {
                        if let V::Iv(m) = v {
                            acc = match acc.checked_add(*m) {
                                Some(a) => a,
                                None => return Fold::Unspec,
                            };
                        }
                    }
                    exact(V::Iv(acc))
                }
                _ => Fold::Unspec,
            }
        }
        "min" | "max" => {
            if non_null.is_empty() {
                return exact(V::Null);
            }
            if !non_null.windows(2).all(|w| w[0].type_name() == w[1].type_name()) {
                return Fold::Unspec;
            }
            if non_null.iter().any(|v| matches!(v, V::Array(_)) || matches!(v, V::Real(r) if r.is_nan())) {
                return Fold::Unspec;
            }
            let mut best = non_null[0];
            for v in &non_null[1..] {
                let o = match v.ref_cmp(best) {
                    Some(o) => o,
                    None => return Fold::Unspec,
                };
                if (name == "min" && o == Ordering::Less) || (name == "max" && o == Ordering::Greater) {
                    best = v;
                }
            }
            if matches!(best, V::Real(r) if *r == 0.0) {
                // -0.0 / 0.0 are equal: either sign
                return Fold::Cell(Cell::OneOf(vec![V::Real(0.0), V::Real(-0.0)]));
            }
            exact(best.clone())
        }
        "avg" => {
            if non_null.is_empty() {
                return exact(V::Null);
            }
            if non_null.iter().all(|v| matches!(v, V::Int(_) | V::Real(_))) && non_null.iter().any(|v| matches!(v, V::Int(_))) && non_null.iter().any(|v| matches!(v, V::Real(_))) {
                let acc: f64 = non_null.iter().map(|v| match v { V::Int(i) => *i as f64, V::Real(r) => *r, _ => 0.0 }).sum();
                return if acc.is_finite() && acc.abs() < 1e15 { Fold::Cell(Cell::Approx(acc / non_null.len() as f64, 1e-9)) } else { Fold::Unspec };
            }
            if !same_type(&["int", "real"]) {
                return Fold::Unspec;
            }
            match non_null[0] {
                V::Int(_) => {
                    let mut acc: i128 = 0;
                    for v in &non_null {
                        if let V::Int(i) = v {
                            acc += *i as i128;
                            if acc > i64::MAX as i128 || acc < i64::MIN as i128 {
                                return Fold::Unspec;
                            }
                        }
                    }
                    let n = non_null.len() as i128;
                    // the truncated integer quotient (documented by the unit tests) or the real mean
                    Fold::Cell(Cell::OneOf(vec![V::Int((acc / n) as i64), V::Real(acc as f64 / n as f64)]))
                }
                _ => {
                    let mut acc = 0.0;
                    for v in &non_null {
                        if let V::Real(r) = v {
                            acc += r;
                        }
                    }
                    let m = acc / non_null.len() as f64;
                    if m.is_finite() {
                        Fold::Cell(Cell::Approx(m, 1e-12))
                    } else {
                        Fold::Unspec
                    }
                }
            }
        }
        "stddev" | "variance" => {
            if non_null.is_empty() {
                return exact(V::Null);
            }
            if !same_type(&["int", "real"]) {
                return Fold::Unspec;
            }
            let xs: Vec<f64> = non_null
                .iter()
                .map(|v| match v {
                    V::Int(i) => *i as f64,
                    V::Real(r) => *r,
                    _ => 0.0,
                })
                .collect();
            if xs.iter().any(|x| x.abs() > 1e6) {
                return Fold::Unspec;
            }
            let n = xs.len() as f64;
            let mean = xs.iter().sum::<f64>() / n;
            let var = xs.iter().map(|x| (x - mean) * (x - mean)).sum::<f64>() / n;
            let scale = xs.iter().map(|x| x * x).sum::<f64>().max(1.0);
            if name == "variance" {
                Fold::Cell(Cell::Approx(var, 1e-9 * scale))
            } else {
                // sqrt amplifies the absolute error near zero
                Fold::Cell(Cell::Approx(var.sqrt(), (1e-9 * scale).sqrt().max(1e-9)))
            }
        }
        "percentile" => {
            let p = match args.get(1) {
                Some(E::Real(s)) => s.parse::<f64>().unwrap_or(0.5),
                _ => return Fold::Unspec,
            };
            if non_null.is_empty() {
                return exact(V::Null);
            }
            if !non_null.windows(2).all(|w| w[0].type_name() == w[1].type_name()) || non_null.iter().any(|v| matches!(v, V::Real(r) if r.is_nan()) || matches!(v, V::Array(_))) {
                return Fold::Unspec;
            }
            let n = non_null.len() as f64;
            let pn = p * n;
            // validity predicate: an element v with #{< v} <= p*n <= #{<= v}
            let mut ok: Vec<V> = Vec::new();
            for v in &non_null {
                let less = non_null.iter().filter(|o| o.ref_cmp(v) == Some(Ordering::Less)).count() as f64;
                let le = non_null.iter().filter(|o| o.ref_cmp(v) != Some(Ordering::Greater)).count() as f64;
                if less <= pn && pn <= le && !ok.iter().any(|o: &V| o.ref_eq(v)) {
                    ok.push((*v).clone());
                }
            }
            if ok.is_empty() {
                Fold::Unspec
            } else {
                Fold::Cell(Cell::OneOf(ok))
            }
        }
        "bool_and" | "bool_or" => {
            if non_null.iter().any(|v| !matches!(v, V::Bool(_))) {
                return Fold::Error(format!("{} over a non-boolean", name));
            }
            if non_null.is_empty() {
                return exact(V::Null);
            }
            let bools: Vec<bool> = non_null.iter().map(|v| matches!(v, V::Bool(true))).collect();
            exact(V::Bool(if name == "bool_and" { bools.iter().all(|b| *b) } else { bools.iter().any(|b| *b) }))
        }
        "string_agg" => {
            let delim = match args.get(1) {
                Some(E::Str(s)) => s.clone(),
                _ => return Fold::Unspec,
            };
            if non_null.iter().any(|v| !matches!(v, V::Text(_))) {
                return Fold::Error("STRING_AGG over a non-text".into());
            }
            if non_null.is_empty() {
                return exact(V::Null);
            }
            let parts: Vec<&str> = non_null.iter().map(|v| if let V::Text(s) = v { s.as_str() } else { "" }).collect();
            exact(V::Text(parts.join(&delim)))
        }
        "array_agg" => {
            // "the argument's values in arrival order": NULLs included, also when a NULL arrives first
            if !non_null.windows(2).all(|w| w[0].type_name() == w[1].type_name()) {
                return Fold::Unspec;
            }
            exact(V::Array(values.clone()))
        }
        _ => Fold::Unspec,
    }
}

fn key_cmp(a: &[V], b: &[V]) -> Option<Ordering> {
    for (x, y) in a.iter().zip(b.iter()) {
        match x.ref_cmp(y)? {
            Ordering::Equal => {}
            o => return Some(o),
        }
    }
    Some(Ordering::Equal)
}

/// The statement's output table over the given candidate rows (already joined if there is a join).
pub fn aggregate_table(query: &Select, rows: &[RowCtx]) -> TableOutcome {
    // 1. WHERE
    let mut passing: Vec<&RowCtx> = Vec::new();
    for r in rows {
        if let Some(f) = &query.filter {
            let w = Evaluator::new(&r.env).eval(f);
            if w.or_err {
                return TableOutcome::Unspec;
            }
            match w.k {
                K::Err => return TableOutcome::Error("WHERE has no value".into()),
                K::Unspec => return TableOutcome::Unspec,
                K::Val(V::Bool(true)) => passing.push(r),
                K::Val(V::Bool(false)) => {}
                K::Val(_) => return TableOutcome::Unspec,
            }
        } else {
            passing.push(r);
        }
    }
    // 2. keys
    let mut buckets: Vec<(Vec<V>, Vec<&RowCtx>)> = Vec::new();
    let mut other_names: Vec<Vec<V>> = Vec::new();
    for r in &passing {
        let mut key = Vec::new();
        for g in &query.group_by {
            let k = Evaluator::new(&r.env).eval(g);
            if k.or_err || k.approx || k.unordered {
                return TableOutcome::Unspec;
            }
            match k.k {
                K::Err => return TableOutcome::Error("GROUP BY expression has no value".into()),
                K::Unspec => return TableOutcome::Unspec,
                K::Val(v) => {
                    if matches!(&v, V::Real(r) if r.is_nan() || (*r == 0.0 && r.is_sign_negative())) || matches!(&v, V::Array(_)) {
                        return TableOutcome::Unspec;
                    }
                    key.push(v)
                }
            }
        }
        match buckets.iter_mut().find(|(k, _)| k.len() == key.len() && k.iter().zip(key.iter()).all(|(a, b)| a.ref_eq(b))) {
            Some((k, members)) => {
                // an equal key written differently (1 and 1.0): which of them names the group is not stated
                if format!("{:?}", k) != format!("{:?}", key) {
                    other_names.push(key);
                }
                members.push(r)
            }
            None => buckets.push((key, vec![r])),
        }
    }
    // key parts must be comparable (one type per part)
    for i in 0..buckets.len() {
        for j in 0..i {
            if key_cmp(&buckets[i].0, &buckets[j].0).is_none() {
                return TableOutcome::Unspec;
            }
        }
    }
    buckets.sort_by(|a, b| key_cmp(&a.0, &b.0).unwrap_or(Ordering::Equal));

    if query.group_by.is_empty() && passing.is_empty() {
        // items are still validated by an implementation only when a row arrives
        return TableOutcome::ZeroOrOne;
    }

    // 3. every select item and HAVING per bucket
    let mut out = Vec::new();
    for (key, members) in &buckets {
        // environment for key references / wrappers: the group's key values under the key expressions' texts
        let mut env: HashMap<String, V> = HashMap::new();
        for (g, v) in query.group_by.iter().zip(key.iter()) {
            if let E::Col(name) = g {
                env.insert(name.clone(), v.clone());
            }
        }
        let mut unspec = false;
        let mut error: Option<String> = None;
        let mut eval_item = |e: &E, env: &HashMap<String, V>| -> Cell {
            // a key expression textually identical to a GROUP BY element
            if let Some(pos) = query.group_by.iter().position(|g| g == e) {
                let mut names: Vec<V> = vec![key[pos].clone()];
                for other in &other_names {
                    if other.len() == key.len() && other.iter().zip(key.iter()).all(|(a, b)| a.ref_eq(b)) && !names.iter().any(|n| format!("{:?}", n) == format!("{:?}", other[pos])) {
                        names.push(other[pos].clone());
                    }
                }
                if names.len() > 1 {
                    return Cell::OneOf(names);
                }
                return Cell::Exact(Ev::val(key[pos].clone()));
            }
            match find_agg(e) {
                None => {
                    // neither key nor aggregate: the statement is invalid as soon as a row arrives
                    error = Some("select item is neither a group key nor an aggregate".into());
                    Cell::Any
                }
                Some(agg) => match fold(agg, members) {
                    Fold::Error(m) => {
                        error = Some(m);
                        Cell::Any
                    }
                    Fold::Unspec => {
                        unspec = true;
                        Cell::Any
                    }
                    Fold::Cell(cell) => {
                        if matches!(e, E::Agg(_, _, _)) {
                            return cell;
                        }
                        // wrapper around the aggregate: apply it to the aggregate's value
                        let v = match &cell {
                            Cell::Exact(ev) if !ev.or_err => match &ev.k {
                                K::Val(v) => v.clone(),
                                _ => {
                                    unspec = true;
                                    return Cell::Any;
                                }
                            },
                            _ => {
                                unspec = true;
                                return Cell::Any;
                            }
                        };
                        let mut env2 = env.clone();
                        env2.insert("$agg".to_string(), v);
                        let wrapped = replace_aggs(e, &mut |_| E::col("$agg"));
                        let r = Evaluator::new(&env2).eval(&wrapped);
                        if r.or_err {
                            unspec = true;
                            return Cell::Any;
                        }
                        match &r.k {
                            K::Err => {
                                error = Some("wrapper around the aggregate has no value".into());
                                Cell::Any
                            }
                            K::Unspec => {
                                unspec = true;
                                Cell::Any
                            }
                            K::Val(V::Real(x)) if !x.is_finite() => {
                                unspec = true;
                                Cell::Any
                            }
                            K::Val(_) => Cell::Exact(r),
                        }
                    }
                },
            }
        };
        let mut cells = Vec::new();
        for (e, _) in &query.items {
            cells.push(eval_item(e, &env));
        }
        // HAVING on the bucket's own key and folds
        let mut keep = true;
        if let Some(h) = &query.having {
            let mut env2 = env.clone();
            let mut n = 0;
            let mut bad = false;
            let mut err2: Option<String> = None;
            let replaced = replace_aggs(h, &mut |agg| {
                n += 1;
                let name = format!("$h{}", n);
                match fold(agg, members) {
                    Fold::Cell(Cell::Exact(ev)) if !ev.or_err => {
                        if let K::Val(v) = &ev.k {
                            env2.insert(name.clone(), v.clone());
                        } else {
                            bad = true;
                        }
                    }
                    Fold::Error(m) => err2 = Some(m),
                    _ => bad = true,
                }
                E::Col(name)
            });
            drop(eval_item);
            if let Some(m) = err2 {
                error = Some(m);
            } else if bad {
                unspec = true;
            } else {
                let r = Evaluator::new(&env2).eval(&replaced);
                if r.or_err {
                    unspec = true;
                }
                match r.k {
                    K::Err => error = Some("HAVING has no value".into()),
                    K::Unspec => unspec = true,
                    K::Val(V::Bool(b)) => keep = b,
                    K::Val(_) => unspec = true,
                }
            }
        } else {
            drop(eval_item);
        }
        if let Some(m) = error {
            return TableOutcome::Error(m);
        }
        if unspec {
            return TableOutcome::Unspec;
        }
        if keep {
            out.push(cells);
        }
    }
    TableOutcome::Rows(out)
}

pub fn cell_matches(cell: &Cell, got: &crate::value::J) -> Result<(), String> {
    use crate::value::{json_matches, J};
    match cell {
        Cell::Any => Ok(()),
        Cell::Exact(ev) => value_matches(ev, got),
        Cell::Approx(want, tol) => match got {
            J::Num(text) if !J::is_integer_literal(text) => match text.parse::<f64>() {
                Ok(g) if (g - want).abs() <= tol.max(want.abs() * 1e-12) => Ok(()),
                _ => Err(format!("expected about {:?} (tolerance {:e}) got {}", want, tol, text)),
            },
            other => Err(format!("expected REAL about {:?} got {:?}", want, other)),
        },
        Cell::OneOf(options) => {
            if options.iter().any(|v| json_matches(v, got).is_ok()) {
                Ok(())
            } else {
                Err(format!("expected one of {:?} got {:?}", options, got))
            }
        }
    }
}
