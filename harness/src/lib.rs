//! Verification harness for svenslaggare/sqlgrep: generators, reference models, engine and one module per property.

pub mod data;
pub mod eval;
pub mod exec;
pub mod extract_model;
pub mod follow_child;
pub mod gen_query;
pub mod gen_stmt;
pub mod gen_typed;
pub mod model_agg;
pub mod props;
pub mod run;
pub mod sql;
pub mod stmt;
pub mod tape;
pub mod value;
