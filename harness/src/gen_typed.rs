//! Typed expression generator: expressions are generated with an intended type over the columns of a
//! scope; a controlled fraction of nodes is made ill-typed on purpose.

use crate::data::{Ty, TEXT_POOL};
use crate::run::Ctx;
use crate::sql::{BinOp, E};
use crate::tape::Tape;

#[derive(Clone, Debug)]
pub struct Scope {
    /// (name as written in the query, type)
    pub cols: Vec<(String, Ty)>,
}

impl Scope {
    pub fn of(&self, ty: Ty) -> Vec<&str> {
        self.cols.iter().filter(|c| c.1 == ty).map(|c| c.0.as_str()).collect()
    }
}

#[derive(Clone, Debug)]
pub struct GenCfg {
    /// one node in `ill_typed` is replaced by an expression of another type
    pub ill_typed: u32,
    /// literals and operations that overflow / divide by zero / index out of range
    pub hazard: bool,
    /// NULL literals as operands
    pub nulls: bool,
    /// functions, casts, CASE, arrays (false: plain operators only)
    pub rich: bool,
}

impl GenCfg {
    pub fn plain() -> GenCfg {
        GenCfg { ill_typed: 0, hazard: false, nulls: false, rich: false }
    }
    pub fn rich() -> GenCfg {
        GenCfg { ill_typed: 7, hazard: false, nulls: true, rich: true }
    }
}

pub struct TypedGen<'a> {
    pub scope: &'a Scope,
    pub cfg: GenCfg,
    pub ctx: &'a Ctx,
    pub excluded: u64,
}

const TS_LITERALS: [&str; 6] = ["2020-09-13 12:26:40", "2021-04-01 00:00:00", "2021-04-01 01:00:59", "1999-12-31 23:59:59", "2021-10-18 13:26:40", "2021-06-01 12:00:60"];
const IV_LITERALS: [&str; 5] = ["0:00:00", "0:00:05", "1:00:00", "2:03:04", "25:00:00"];
const IV_HAZARDS: [&str; 4] = ["99999999999999:00:00", "0:999999999999999999:0", "0:0:9223372036854775807", "2562047788015215:30:07"];

impl<'a> TypedGen<'a> {
    pub fn new(scope: &'a Scope, cfg: GenCfg, ctx: &'a Ctx) -> TypedGen<'a> {
        TypedGen { scope, cfg, ctx, excluded: 0 }
    }

    fn int_literal(&mut self, t: &mut Tape) -> E {
        let v: i64 = if self.cfg.hazard && t.chance(1, 3) {
            *t.pick(&[i64::MAX, 0, 4294967296, 1 << 62, 3037000500, 2147483648])
        } else {
            t.range(0, 6)
        };
        if t.chance(1, 5) {
            E::Neg(Box::new(E::Int(v)))
        } else {
            E::Int(v)
        }
    }

    fn literal(&mut self, t: &mut Tape, ty: Ty) -> E {
        match ty {
            Ty::Int => self.int_literal(t),
            Ty::Real => {
                let e = E::Real(format!("{}.{}", t.range(0, 8), *t.pick(&["0", "5", "25", "125"])));
                if t.chance(1, 5) {
                    E::Neg(Box::new(e))
                } else {
                    e
                }
            }
            Ty::Text => E::Str(t.pick(&TEXT_POOL).to_string()),
            Ty::Bool => {
                if t.chance(1, 2) {
                    E::True
                } else {
                    E::False
                }
            }
            Ty::Ts => E::cast(E::Str(t.pick(&TS_LITERALS).to_string()), "timestamp"),
            Ty::Iv => {
                if self.cfg.hazard && t.chance(1, 6) {
                    E::cast(E::Str(t.pick(&IV_HAZARDS).to_string()), "interval")
                } else {
                    E::cast(E::Str(t.pick(&IV_LITERALS).to_string()), "interval")
                }
            }
            Ty::IntArr => {
                let n = 1 + t.draw(3);
                E::Array((0..n).map(|_| E::Int(t.range(0, 4))).collect())
            }
            Ty::TextArr => {
                let n = 1 + t.draw(3);
                E::Array((0..n).map(|_| E::Str(t.pick(&TEXT_POOL[..6]).to_string())).collect())
            }
        }
    }

    fn leaf(&mut self, t: &mut Tape, ty: Ty) -> E {
        let cols = self.scope.of(ty);
        if self.cfg.nulls && t.chance(1, 12) {
            return E::Null;
        }
        if !cols.is_empty() && !t.chance(1, 3) {
            return E::col(*t.pick(&cols));
        }
        self.literal(t, ty)
    }

    pub fn gen(&mut self, t: &mut Tape, ty: Ty, depth: usize) -> E {
        if self.cfg.ill_typed > 0 && t.chance(1, self.cfg.ill_typed * 4) {
            // ill-typed on purpose
            let other = *t.pick(&[Ty::Int, Ty::Real, Ty::Text, Ty::Bool, Ty::Ts, Ty::Iv, Ty::IntArr]);
            if other != ty {
                return self.gen_typed(t, other, depth.min(1));
            }
        }
        self.gen_typed(t, ty, depth)
    }

    fn gen_typed(&mut self, t: &mut Tape, ty: Ty, depth: usize) -> E {
        if depth == 0 || t.chance(1, 4) {
            return self.leaf(t, ty);
        }
        let d = depth - 1;
        let rich = self.cfg.rich;
        match ty {
            Ty::Bool => match t.weighted(&[10, 4, 4, 3, 3, if rich { 2 } else { 0 }, if rich { 2 } else { 0 }, 1]) {
                0 => {
                    // comparison of two operands of one type
                    let op = *t.pick(&BinOp::CMP);
                    match t.weighted(&[6, 3, 4, 2, 2, 2, 1, 1]) {
                        0 => E::bin(op, self.gen(t, Ty::Int, d), self.gen(t, Ty::Int, d)),
                        1 => E::bin(op, self.gen(t, Ty::Real, d), self.gen(t, Ty::Real, d)),
                        2 => E::bin(op, self.gen(t, Ty::Text, d), self.gen(t, Ty::Text, d)),
                        3 => E::bin(op, self.gen(t, Ty::Ts, d), self.gen(t, Ty::Ts, d)),
                        4 => E::bin(op, self.gen(t, Ty::Iv, d), self.gen(t, Ty::Iv, d)),
                        5 => {
                            // INT x REAL
                            if self.ctx.excluded("c03_mixed_numeric_compare") {
                                self.excluded += 1;
                                E::bin(op, self.gen(t, Ty::Int, d), self.gen(t, Ty::Int, d))
                            } else if t.chance(1, 2) {
                                E::bin(op, self.gen(t, Ty::Int, d), self.gen(t, Ty::Real, d))
                            } else {
                                E::bin(op, self.gen(t, Ty::Real, d), self.gen(t, Ty::Int, d))
                            }
                        }
                        6 => {
                            let op = if t.chance(1, 2) { BinOp::Eq } else { BinOp::Ne };
                            E::bin(op, self.gen(t, Ty::Bool, d), self.gen(t, Ty::Bool, d))
                        }
                        _ => {
                            // TIMESTAMP x text literal
                            let lit = E::Str(t.pick(&TS_LITERALS).to_string());
                            if t.chance(1, 2) {
                                E::bin(op, self.gen(t, Ty::Ts, d), lit)
                            } else {
                                E::bin(op, lit, self.gen(t, Ty::Ts, d))
                            }
                        }
                    }
                }
                1 => E::bin(BinOp::And, self.gen(t, Ty::Bool, d), self.gen(t, Ty::Bool, d)),
                2 => E::bin(BinOp::Or, self.gen(t, Ty::Bool, d), self.gen(t, Ty::Bool, d)),
                3 => E::Not(Box::new(self.gen(t, Ty::Bool, d))),
                4 => {
                    let any = *t.pick(&[Ty::Int, Ty::Real, Ty::Text, Ty::Bool, Ty::Ts, Ty::Iv, Ty::IntArr]);
                    E::Is { not: t.chance(1, 2), l: Box::new(self.gen(t, any, d)), r: Box::new(E::Null) }
                }
                5 if t.chance(1, 6) => {
                    // TIMESTAMP IN (text literals): the same coercion as `ts = 'text'`
                    let x = self.gen(t, Ty::Ts, d);
                    // (one list in six is long - 16 to 24 literals: a list handled as a set would show here)
                    let long = t.chance(1, 6);
                    let n = if long { 16 + t.draw(9) } else { 1 + t.draw(3) };
                    let list = (0..n).map(|_| if !long && t.chance(1, 4) { self.gen(t, Ty::Ts, d.min(1)) } else { E::Str(t.pick(&TS_LITERALS).to_string()) }).collect();
                    E::In { not: t.chance(1, 2), x: Box::new(x), list }
                }
                5 => {
                    let ety = *t.pick(&[Ty::Int, Ty::Int, Ty::Text, Ty::Real]);
                    // (one list in ten is long and made of literals only; one of those in three carries literals of another type)
                    let long = t.chance(1, 10);
                    let n = if long { 16 + t.draw(9) } else { 1 + t.draw(4) };
                    let x = self.gen(t, ety, d);
                    let other = if long && t.chance(1, 3) { Some(if ety == Ty::Text { Ty::Int } else { Ty::Text }) } else { None };
                    let list = (0..n)
                        .map(|_| {
                            if long {
                                self.literal(t, other.unwrap_or(ety))
                            } else if self.cfg.nulls && t.chance(1, 8) {
                                E::Null
                            } else {
                                self.gen(t, ety, d.min(1))
                            }
                        })
                        .collect();
                    E::In { not: t.chance(1, 2), x: Box::new(x), list }
                }
                6 => match t.draw(3) {
                    0 => {
                        // the pattern is a literal or (a third of the time) depends on the row
                        let subject = self.gen(t, Ty::Text, d);
                        let pattern = if t.chance(1, 3) { self.gen(t, Ty::Text, d.min(1)) } else { E::Str(t.pick(&["a", "^a", "[0-9]+", "b$", "", "("]).to_string()) };
                        E::call(if t.chance(1, 2) { "regexp_matches" } else { "regex_matches" }, vec![subject, pattern])
                    }
                    1 => E::cast(E::Str(t.pick(&["true", "false", "TRUE", "1"]).to_string()), "boolean"),
                    _ => self.case(t, Ty::Bool, d),
                },
                _ => self.leaf(t, Ty::Bool),
            },
            Ty::Int => match t.weighted(&[10, 2, if rich { 8 } else { 0 }, 1]) {
                0 => {
                    let op = *t.pick(&BinOp::ARITH);
                    E::bin(op, self.gen(t, Ty::Int, d), self.gen(t, Ty::Int, d))
                }
                1 => E::Neg(Box::new(self.gen(t, Ty::Int, d))),
                2 => match t.draw(10) {
                    0 => E::call("abs", vec![self.gen(t, Ty::Int, d)]),
                    1 => E::call(if t.chance(1, 2) { "least" } else { "greatest" }, vec![self.gen(t, Ty::Int, d), self.gen(t, Ty::Int, d)]),
                    2 => E::call("length", vec![self.gen(t, Ty::Text, d)]),
                    3 => {
                        let aty = if t.chance(1, 2) { Ty::IntArr } else { Ty::TextArr };
                        E::call("array_length", vec![self.gen(t, aty, d)])
                    }
                    4 => {
                        let idx = if self.cfg.hazard && t.chance(1, 3) { E::Int(*t.pick(&[0, i64::MAX, 1 << 40])) } else if t.chance(1, 6) { E::Neg(Box::new(E::Int(t.range(0, 2)))) } else { self.gen(t, Ty::Int, d.min(1)) };
                        E::Index(Box::new(self.gen(t, Ty::IntArr, d)), Box::new(idx))
                    }
                    5 => self.case(t, Ty::Int, d),
                    6 => E::Extract(t.pick(&["YEAR", "MONTH", "DAY", "HOUR", "MINUTE", "SECOND"]).to_string(), Box::new(self.gen(t, Ty::Ts, d))),
                    7 => E::cast(E::Str(t.pick(&["12", "-3", "+5", "007", "1.5", "abc", "", "9223372036854775808"]).to_string()), "int"),
                    8 => E::cast(self.gen(t, Ty::Iv, d), "int"),
                    _ => {
                        if self.cfg.hazard || t.chance(1, 2) {
                            E::call("pow", vec![self.gen(t, Ty::Int, d.min(1)), E::Int(if self.cfg.hazard { *t.pick(&[2, 3, 62, 63, 64, 4294967296]) } else { t.range(0, 3) })])
                        } else {
                            E::cast(self.gen(t, Ty::Int, d), "int")
                        }
                    }
                },
                _ => self.leaf(t, Ty::Int),
            },
            Ty::Real => match t.weighted(&[8, 2, if rich { 6 } else { 0 }, 1]) {
                0 => {
                    let op = *t.pick(&BinOp::ARITH);
                    E::bin(op, self.gen(t, Ty::Real, d), self.gen(t, Ty::Real, d))
                }
                1 => E::Neg(Box::new(self.gen(t, Ty::Real, d))),
                2 => match t.draw(8) {
                    0 => E::call("abs", vec![self.gen(t, Ty::Real, d)]),
                    1 => E::call("sqrt", vec![self.gen(t, Ty::Real, d)]),
                    2 => E::call("pow", vec![self.gen(t, Ty::Real, d), E::Real(t.pick(&["2.0", "0.5", "3.0"]).to_string())]),
                    3 => E::call(if t.chance(1, 2) { "least" } else { "greatest" }, vec![self.gen(t, Ty::Real, d), self.gen(t, Ty::Real, d)]),
                    4 => E::Extract("EPOCH".to_string(), Box::new(self.gen(t, Ty::Ts, d))),
                    5 => E::cast(E::Str(t.pick(&["1.5", "-0.25", "1e2", ".5", "5.", "abc", "1.2.3", "inf"]).to_string()), "real"),
                    6 => E::cast(self.gen(t, Ty::Iv, d), "real"),
                    _ => self.case(t, Ty::Real, d),
                },
                _ => self.leaf(t, Ty::Real),
            },
            Ty::Text => {
                if !rich {
                    return self.leaf(t, Ty::Text);
                }
                match t.draw(7) {
                    0 => E::call("upper", vec![self.gen(t, Ty::Text, d)]),
                    1 => E::call("lower", vec![self.gen(t, Ty::Text, d)]),
                    2 => self.case(t, Ty::Text, d),
                    3 => E::Index(Box::new(self.gen(t, Ty::TextArr, d)), Box::new(self.gen(t, Ty::Int, d.min(1)))),
                    4 => E::cast(self.gen(t, Ty::Int, d), "text"),
                    5 => E::cast(self.gen(t, Ty::Bool, d), "text"),
                    _ => self.leaf(t, Ty::Text),
                }
            }
            Ty::Ts => {
                if !rich {
                    return self.leaf(t, Ty::Ts);
                }
                if self.cfg.hazard && t.chance(1, 12) {
                    // the ends of the range of representable instants, pushed over the edge by an interval (the local wall-clock time
                    // leaves the range before the instant does, depending on the zone)
                    let edge = if t.chance(1, 2) {
                        E::call("make_timestamp", vec![E::Int(262142), E::Int(12), E::Int(31), E::Int(23), E::Int(59), E::Int(59), E::Int(0)])
                    } else {
                        E::call("make_timestamp", vec![E::Neg(Box::new(E::Int(262143))), E::Int(1), E::Int(1), E::Int(0), E::Int(0), E::Int(0), E::Int(0)])
                    };
                    let iv = E::cast(E::Str(t.pick(&["01:00:00", "00:00:01", "13:00:00", "24:00:00"]).to_string()), "interval");
                    let moved = match t.draw(3) {
                        0 => E::bin(BinOp::Add, edge, iv),
                        1 => E::bin(BinOp::Sub, edge, iv),
                        _ => edge,
                    };
                    return if t.chance(2, 3) {
                        E::call("date_trunc", vec![E::Str(t.pick(&["year", "month", "day", "hour", "minute", "second", "milliseconds", "microseconds"]).to_string()), moved])
                    } else {
                        moved
                    };
                }
                match t.draw(8) {
                    0 => E::bin(BinOp::Add, self.gen(t, Ty::Ts, d), self.gen(t, Ty::Iv, d)),
                    1 => E::bin(BinOp::Add, self.gen(t, Ty::Iv, d), self.gen(t, Ty::Ts, d)),
                    2 => {
                        if self.ctx.excluded("c03_ts_minus_interval") {
                            self.excluded += 1;
                            E::bin(BinOp::Add, self.gen(t, Ty::Ts, d), self.gen(t, Ty::Iv, d))
                        } else {
                            E::bin(BinOp::Sub, self.gen(t, Ty::Ts, d), self.gen(t, Ty::Iv, d))
                        }
                    }
                    3 => E::call("date_trunc", vec![E::Str(t.pick(&["year", "month", "day", "hour", "minute", "second", "milliseconds", "microseconds", "week"]).to_string()), self.gen(t, Ty::Ts, d)]),
                    4 => {
                        if self.ctx.excluded("c03_make_timestamp_arity") {
                            self.excluded += 1;
                            self.leaf(t, Ty::Ts)
                        } else {
                            let parts: Vec<E> = vec![
                                E::Int(t.range(1999, 2024)),
                                E::Int(if self.cfg.hazard && t.chance(1, 3) { *t.pick(&[0, 13, 4294967297]) } else { t.range(1, 12) }),
                                E::Int(if t.chance(1, 8) { 31 } else { t.range(1, 28) }),
                                E::Int(if t.chance(1, 10) { 24 } else { t.range(0, 23) }),
                                E::Int(t.range(0, 59)),
                                E::Int(t.range(0, 59)),
                                E::Int(*t.pick(&[0, 1000, 999999, 1000000])),
                            ];
                            E::call("make_timestamp", parts)
                        }
                    }
                    5 => E::call(if t.chance(1, 2) { "least" } else { "greatest" }, vec![self.gen(t, Ty::Ts, d), self.gen(t, Ty::Ts, d)]),
                    6 => self.case(t, Ty::Ts, d),
                    _ => self.leaf(t, Ty::Ts),
                }
            }
            Ty::Iv => {
                if !rich {
                    return self.leaf(t, Ty::Iv);
                }
                match t.draw(6) {
                    0 => E::bin(BinOp::Add, self.gen(t, Ty::Iv, d), self.gen(t, Ty::Iv, d)),
                    1 => E::bin(BinOp::Sub, self.gen(t, Ty::Iv, d), self.gen(t, Ty::Iv, d)),
                    2 => E::bin(BinOp::Sub, self.gen(t, Ty::Ts, d), self.gen(t, Ty::Ts, d)),
                    3 => E::call("abs", vec![self.gen(t, Ty::Iv, d)]),
                    4 => E::call(if t.chance(1, 2) { "least" } else { "greatest" }, vec![self.gen(t, Ty::Iv, d), self.gen(t, Ty::Iv, d)]),
                    _ => self.leaf(t, Ty::Iv),
                }
            }
            Ty::IntArr | Ty::TextArr => {
                if !rich {
                    return self.leaf(t, ty);
                }
                let elem = if ty == Ty::IntArr { Ty::Int } else { Ty::Text };
                match t.draw(6) {
                    0 => E::call("array_cat", vec![self.gen(t, ty, d), self.gen(t, ty, d)]),
                    1 => E::call("array_append", vec![self.gen(t, ty, d), self.gen(t, elem, d.min(1))]),
                    2 => E::call("array_prepend", vec![self.gen(t, elem, d.min(1)), self.gen(t, ty, d)]),
                    3 => E::call("array_unique", vec![self.gen(t, ty, d)]),
                    4 => {
                        let n = 1 + t.draw(3);
                        E::Array((0..n).map(|_| self.gen(t, elem, d.min(1))).collect())
                    }
                    _ => self.leaf(t, ty),
                }
            }
        }
    }

    fn case(&mut self, t: &mut Tape, ty: Ty, d: usize) -> E {
        let n = 1 + t.draw(2);
        let clauses = (0..n).map(|_| (self.gen(t, Ty::Bool, d), self.gen(t, ty, d))).collect();
        E::Case(clauses, Box::new(self.gen(t, ty, d)))
    }
}
