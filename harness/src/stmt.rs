//! Statement models (SELECT and CREATE TABLE) and their rendering to token lists.

use serde::{Deserialize, Serialize};

use crate::sql::*;

#[derive(Clone, Debug, PartialEq, Serialize, Deserialize)]
pub struct Join {
    pub outer: bool,
    pub table: String,
    pub file: String,
    /// `ON l_table.l_col = r_table.r_col`
    pub left: (String, String),
    pub right: (String, String),
}

#[derive(Clone, Copy, Debug, PartialEq, Eq, Serialize, Deserialize)]
pub enum Clause {
    Join,
    Where,
    GroupBy,
    Having,
    Limit,
}

#[derive(Clone, Debug, PartialEq, Serialize, Deserialize, Default)]
pub struct Select {
    pub distinct: bool,
    pub items: Vec<(E, Option<String>)>,
    pub from: String,
    pub filename: Option<String>,
    pub join: Option<Join>,
    pub filter: Option<E>,
    pub group_by: Vec<E>,
    pub having: Option<E>,
    pub limit: Option<u64>,
    /// order in which the present clauses are written (absent clauses are skipped)
    pub order: Vec<Clause>,
    pub semicolon: bool,
}

pub const DEFAULT_ORDER: [Clause; 5] = [Clause::Join, Clause::Where, Clause::GroupBy, Clause::Having, Clause::Limit];

impl Select {
    pub fn simple(items: Vec<(E, Option<String>)>, from: &str) -> Select {
        Select { items, from: from.to_string(), order: DEFAULT_ORDER.to_vec(), ..Default::default() }
    }

    pub fn present(&self) -> Vec<Clause> {
        let mut order = self.order.clone();
        for c in DEFAULT_ORDER {
            if !order.contains(&c) {
                order.push(c);
            }
        }
        order
            .into_iter()
            .filter(|c| match c {
                Clause::Join => self.join.is_some(),
                Clause::Where => self.filter.is_some(),
                Clause::GroupBy => !self.group_by.is_empty(),
                Clause::Having => self.having.is_some(),
                Clause::Limit => self.limit.is_some(),
            })
            .collect()
    }

    pub fn tokens(&self, r: &Renderer) -> Vec<Tok> {
        let mut out = vec![kw("SELECT")];
        if self.distinct {
            out.push(kw("DISTINCT"));
        }
        for (i, (e, alias)) in self.items.iter().enumerate() {
            if i > 0 {
                out.push(punct(","));
            }
            out.extend(r.expr(e));
            if let Some(a) = alias {
                out.push(kw("AS"));
                out.push(ident(a));
            }
        }
        out.push(kw("FROM"));
        out.push(ident(&self.from));
        if let Some(f) = &self.filename {
            out.push(punct("::"));
            out.push(tok(&quote(f), TokKind::Str));
        }
        for c in self.present() {
            match c {
                Clause::Join => {
                    let j = self.join.as_ref().unwrap();
                    out.push(kw(if j.outer { "OUTER" } else { "INNER" }));
                    out.push(kw("JOIN"));
                    out.push(ident(&j.table));
                    out.push(punct("::"));
                    out.push(tok(&quote(&j.file), TokKind::Str));
                    out.push(kw("ON"));
                    out.push(ident(&j.left.0));
                    out.push(op("."));
                    out.push(ident(&j.left.1));
                    out.push(op("="));
                    out.push(ident(&j.right.0));
                    out.push(op("."));
                    out.push(ident(&j.right.1));
                }
                Clause::Where => {
                    out.push(kw("WHERE"));
                    out.extend(r.expr(self.filter.as_ref().unwrap()));
                }
                Clause::GroupBy => {
                    out.push(kw("GROUP"));
                    out.push(kw("BY"));
                    for (i, e) in self.group_by.iter().enumerate() {
                        if i > 0 {
                            out.push(punct(","));
                        }
                        out.extend(r.expr(e));
                    }
                }
                Clause::Having => {
                    out.push(kw("HAVING"));
                    out.extend(r.expr(self.having.as_ref().unwrap()));
                }
                Clause::Limit => {
                    out.push(kw("LIMIT"));
                    out.push(tok(&self.limit.unwrap().to_string(), TokKind::Num));
                }
            }
        }
        if self.semicolon {
            out.push(punct(";"));
        }
        out
    }

    pub fn text(&self) -> String {
        join_canonical(&self.tokens(&Renderer::full()))
    }

    pub fn text_min(&self) -> String {
        join_canonical(&self.tokens(&Renderer::minimal()))
    }

    /// all string literals the statement contains (file names, literals in expressions), for fidelity checks
    pub fn strings(&self) -> Vec<String> {
        let mut out = Vec::new();
        let mut grab = |e: &E| {
            e.visit(&mut |n| {
                if let E::Str(s) = n {
                    out.push(s.clone());
                }
            })
        };
        for (e, _) in &self.items {
            grab(e);
        }
        if let Some(f) = &self.filter {
            grab(f);
        }
        for g in &self.group_by {
            grab(g);
        }
        if let Some(h) = &self.having {
            grab(h);
        }
        out
    }
}

// ---------------------------------------------------------------------------------------------
// CREATE TABLE

#[derive(Clone, Debug, PartialEq, Serialize, Deserialize)]
pub enum JsonPart {
    Field(String),
    Index(u64),
}

#[derive(Clone, Debug, PartialEq, Serialize, Deserialize)]
pub enum Source {
    /// `p[i]` (one) or `p[i], q[j], ...` (several)
    Groups(Vec<(String, u64)>),
    /// `'regex' => ...` bound to group 1 of its own pattern
    Inline(String),
    Json(Vec<JsonPart>),
}

#[derive(Clone, Debug, PartialEq, Serialize, Deserialize)]
pub enum Modifier {
    NotNull,
    Trim,
    Convert,
    Microseconds,
    Default(E),
}

#[derive(Clone, Debug, PartialEq, Serialize, Deserialize)]
pub enum Entry {
    /// `name = [split|match] 'regex'`
    Pattern { name: String, mode: Option<String>, regex: String },
    /// `<source> => name TYPE [modifier]`
    Column { source: Source, name: String, ty: String, modifier: Option<Modifier> },
}

#[derive(Clone, Debug, PartialEq, Serialize, Deserialize)]
pub struct TableDef {
    pub name: String,
    pub entries: Vec<Entry>,
}

impl TableDef {
    pub fn tokens(&self) -> Vec<Tok> {
        let mut out = vec![kw("CREATE"), kw("TABLE"), ident(&self.name), punct("(")];
        for (i, entry) in self.entries.iter().enumerate() {
            if i > 0 {
                out.push(punct(","));
            }
            match entry {
                Entry::Pattern { name, mode, regex } => {
                    out.push(ident(name));
                    out.push(op("="));
                    if let Some(m) = mode {
                        // `split` is a documented keyword of the definition syntax (case-insensitive like the others)
                        out.push(if m == "split" { kw(m) } else { ident(m) });
                    }
                    out.push(tok(&quote(regex), TokKind::Str));
                }
                Entry::Column { source, name, ty, modifier } => {
                    match source {
                        Source::Groups(groups) => {
                            for (k, (p, i)) in groups.iter().enumerate() {
                                if k > 0 {
                                    out.push(punct(","));
                                }
                                out.push(ident(p));
                                out.push(punct("["));
                                out.push(tok(&i.to_string(), TokKind::Num));
                                out.push(punct("]"));
                            }
                        }
                        Source::Inline(regex) => out.push(tok(&quote(regex), TokKind::Str)),
                        Source::Json(parts) => {
                            out.push(punct("{"));
                            for p in parts {
                                match p {
                                    JsonPart::Field(f) => {
                                        out.push(op("."));
                                        out.push(ident(f));
                                    }
                                    JsonPart::Index(i) => {
                                        out.push(punct("["));
                                        out.push(tok(&i.to_string(), TokKind::Num));
                                        out.push(punct("]"));
                                    }
                                }
                            }
                            out.push(punct("}"));
                        }
                    }
                    out.push(punct("=>"));
                    out.push(ident(name));
                    let base = ty.trim_end_matches("[]");
                    out.push(tok(base, TokKind::Type));
                    let mut rest = &ty[base.len()..];
                    while rest.starts_with("[]") {
                        out.push(punct("["));
                        out.push(punct("]"));
                        rest = &rest[2..];
                    }
                    match modifier {
                        None => {}
                        Some(Modifier::NotNull) => {
                            out.push(kw("NOT"));
                            out.push(tok("NULL", TokKind::Word));
                        }
                        Some(Modifier::Trim) => out.push(tok("TRIM", TokKind::Word)),
                        Some(Modifier::Convert) => out.push(tok("CONVERT", TokKind::Word)),
                        Some(Modifier::Microseconds) => out.push(tok("MICROSECONDS", TokKind::Word)),
                        Some(Modifier::Default(e)) => {
                            out.push(kw("DEFAULT"));
                            out.extend(Renderer::minimal().expr(e));
                        }
                    }
                }
            }
        }
        out.push(punct(")"));
        out.push(punct(";"));
        out
    }

    pub fn text(&self) -> String {
        join_canonical(&self.tokens())
    }

    /// pattern strings in definition order, inline patterns included
    pub fn patterns(&self) -> Vec<String> {
        let mut out = Vec::new();
        for e in &self.entries {
            match e {
                Entry::Pattern { regex, .. } => out.push(regex.clone()),
                Entry::Column { source: Source::Inline(regex), .. } => out.push(regex.clone()),
                _ => {}
            }
        }
        out
    }

    pub fn column_names(&self) -> Vec<String> {
        self.entries.iter().filter_map(|e| if let Entry::Column { name, .. } = e { Some(name.clone()) } else { None }).collect()
    }
}
