//! Executor-level follow mode: `FollowFileExecutor` prints to the process's stdout, so such cases run in a
//! child process (this binary with `--follow-child <job file>`); the parent reads the child's stdout.
//! The writer's appends are scripted through the `follow_idle` hook exactly as at iterator level.

use std::cell::RefCell;
use std::io::Write;
use std::path::Path;
use std::rc::Rc;
use std::sync::atomic::{AtomicBool, Ordering};
use std::sync::Arc;

use serde::{Deserialize, Serialize};

use sqlgrep::executor::{DisplayOptions, FollowFileExecutor, OutputFormat};
use sqlgrep::ExecutionEngine;

use crate::run::Ctx;

#[derive(Clone, Debug, Serialize, Deserialize)]
pub struct FollowJob {
    pub defs: String,
    pub query: String,
    /// full content that the file will eventually have
    pub content: String,
    /// byte offsets at which the reader observes EOF (segment boundaries)
    pub polls: Vec<usize>,
    /// idle polls before each segment
    pub idle: Vec<u8>,
    /// number of segments present before the executor is constructed
    pub pre: usize,
    pub head: bool,
    /// clear the running flag at this (1-based) `follow_line` probe event
    pub interrupt_at_probe: Option<usize>,
    pub file: String,
    /// k > 0: the handle given to `FollowFileExecutor::new` is not a fresh one - up to k bytes of the existing content
    /// have been read through it before (its cursor is not at 0, as with a handle the program has used itself)
    #[serde(default)]
    pub used_handle: usize,
}

#[derive(Debug)]
pub struct FollowOut {
    /// stdout without the trailer
    pub stdout: String,
    /// Ok or the execution error
    pub result: Result<(), String>,
    /// number of follow_line probe events seen
    pub probes: usize,
}

pub const CLEAR: &str = "\x1B[2J\x1B[1;1H";

pub fn boundaries(content_len: usize, polls: &[usize]) -> Vec<usize> {
    let mut inner: Vec<usize> = polls.iter().copied().filter(|p| *p > 0 && *p < content_len).collect();
    inner.sort();
    inner.dedup();
    let mut b = vec![0];
    b.extend(inner);
    b.push(content_len);
    b
}

struct Script {
    file: std::fs::File,
    segments: Vec<Vec<u8>>,
    next: usize,
    idle: Vec<u8>,
    idle_done: u8,
    callbacks: u64,
}

/// Installs the follow_idle hook that appends `segments` one per EOF observation (after the scripted idle polls).
pub fn install_script(path: &Path, segments: Vec<Vec<u8>>, idle: Vec<u8>) -> std::io::Result<()> {
    let writer = std::fs::OpenOptions::new().append(true).open(path)?;
    let script = Rc::new(RefCell::new(Script { file: writer, segments, next: 0, idle, idle_done: 0, callbacks: 0 }));
    sqlgrep::verif_hooks::set_follow_idle(Some(Box::new(move || {
        let mut s = script.borrow_mut();
        s.callbacks += 1;
        if s.callbacks > 100_000 {
            return true;
        }
        let want = s.idle.get(s.next).copied().unwrap_or(0).min(3);
        if s.idle_done < want {
            s.idle_done += 1;
            return false;
        }
        if s.next >= s.segments.len() {
            return true;
        }
        s.idle_done = 0;
        let seg = s.segments[s.next].clone();
        s.next += 1;
        let _ = s.file.write_all(&seg);
        let _ = s.file.flush();
        false
    })));
    Ok(())
}

/// Child side.
pub fn child_main(job_path: &str) -> i32 {
    let text = match std::fs::read_to_string(job_path) {
        Ok(t) => t,
        Err(e) => {
            eprintln!("cannot read job {}: {}", job_path, e);
            return 2;
        }
    };
    let job: FollowJob = match serde_json::from_str(&text) {
        Ok(j) => j,
        Err(e) => {
            eprintln!("bad job: {}", e);
            return 2;
        }
    };
    let tables = match crate::exec::build_tables(&job.defs) {
        Ok(t) => t,
        Err(e) => {
            eprintln!("definitions: {}", e);
            return 2;
        }
    };
    let statement = match crate::exec::parse_statement(&job.query) {
        Ok(s) => s,
        Err(e) => {
            eprintln!("query: {}", e);
            return 2;
        }
    };
    let bytes = job.content.as_bytes();
    let b = boundaries(bytes.len(), &job.polls);
    let nseg = b.len() - 1;
    let pre = job.pre.min(nseg);
    let path = Path::new(&job.file);
    if std::fs::write(path, &bytes[..b[pre]]).is_err() {
        return 2;
    }
    let segments: Vec<Vec<u8>> = (pre..nseg).map(|i| bytes[b[i]..b[i + 1]].to_vec()).collect();
    if install_script(path, segments, job.idle.clone()).is_err() {
        return 2;
    }
    let running = Arc::new(AtomicBool::new(true));
    let probes = Rc::new(RefCell::new(0usize));
    {
        let probes = probes.clone();
        let running = running.clone();
        let at = job.interrupt_at_probe;
        sqlgrep::verif_hooks::set_probe(Some(Box::new(move |site| {
            if site == "follow_line" {
                *probes.borrow_mut() += 1;
                if Some(*probes.borrow()) == at {
                    running.store(false, Ordering::SeqCst);
                }
            }
        })));
    }
    let file = match std::fs::File::open(path) {
        Ok(f) => f,
        Err(_) => return 2,
    };
    if job.used_handle > 0 {
        use std::io::Read;
        let mut sink = vec![0u8; job.used_handle];
        let _ = (&file).read(&mut sink);
    }
    let display = DisplayOptions { output_format: OutputFormat::Json, single_result: false, print_result: true };
    let result = match FollowFileExecutor::new(running, file, job.head, display, ExecutionEngine::new(&tables, &statement)) {
        Ok(mut ex) => ex.execute().map_err(|e| format!("{}", e)),
        Err(e) => Err(format!("io: {}", e)),
    };
    sqlgrep::verif_hooks::set_follow_idle(None);
    sqlgrep::verif_hooks::set_probe(None);
    let _ = std::io::stdout().flush();
    println!("\n##RESULT {} probes={}", match &result { Ok(()) => "ok".to_string(), Err(e) => format!("err {}", e.replace('\n', " ")) }, probes.borrow());
    0
}

/// Parent side: runs the job in a child, returns its stdout.
pub fn run_follow(ctx: &Ctx, job: &FollowJob) -> Result<FollowOut, String> {
    let job_path = ctx.file("follow-job.json");
    std::fs::write(&job_path, serde_json::to_string(job).map_err(|e| e.to_string())?).map_err(|e| e.to_string())?;
    let exe = crate::run::child_exe();
    let output = std::process::Command::new(exe).arg("--follow-child").arg(&job_path).output().map_err(|e| e.to_string())?;
    let stdout = String::from_utf8_lossy(&output.stdout).to_string();
    if !output.status.success() {
        return Err(format!("child failed: status {:?}, stderr {}", output.status, String::from_utf8_lossy(&output.stderr)));
    }
    let marker = "\n##RESULT ";
    let pos = stdout.rfind(marker).ok_or_else(|| format!("child ended without a result trailer (status {:?}): stderr {}", output.status, String::from_utf8_lossy(&output.stderr)))?;
    let trailer = stdout[pos + marker.len()..].trim_end().to_string();
    let body = stdout[..pos].to_string();
    let probes = trailer.rsplit("probes=").next().and_then(|p| p.trim().parse::<usize>().ok()).unwrap_or(0);
    let result = if trailer.starts_with("ok") { Ok(()) } else { Err(trailer.clone()) };
    Ok(FollowOut { stdout: body, result, probes })
}
