#!/bin/bash
# usage: tools/seed_eval.sh <PROP> <X> [check ids to run, default PROP]
# Confirms a seeded change in its scratch worktree (tests pass, demo fails with / passes without), then runs our
# checks against it in /repo (apply, run, revert) and files it under /verif/seeded/<PROP>-<X>/.
ID=$1; X=$2; shift 2; CHECKS=${@:-$ID}
# SEED_WT: worktree holding MUTATION/ (default /tmp/scratch/mut-<ID>); SEED_AS: letter to file the change under (default X)
WT=${SEED_WT:-/tmp/scratch/mut-$ID}; M=$WT/MUTATION; AS=${SEED_AS:-$X}
export CARGO_NET_OFFLINE=true
FEAT=""; grep -q verif_hooks $M/$X.demo.rs 2>/dev/null && FEAT="--features verif_hooks"
cd $WT || exit 2
if [ -f $M/$X.confirm ]; then
  # confirmation already done (tools/seed_confirm.sh, same steps, run for several worktrees in parallel)
  clean=$(sed -n 1p $M/$X.confirm); suite=$(sed -n 2p $M/$X.confirm); mutated=$(sed -n 3p $M/$X.confirm)
else
git checkout -q -- . ; rm -rf tests; mkdir -p tests; cp $M/$X.demo.rs tests/demo_x.rs
clean=$(cargo test --offline $FEAT --test demo_x 2>&1 | grep -E "^test result" | head -1)
git apply $M/$X.patch.diff || { echo "PATCH DOES NOT APPLY"; exit 2; }
suite=$(cargo test --offline --lib 2>&1 | grep -E "^test result" | head -1)
mutated=$(cargo test --offline $FEAT --test demo_x 2>&1 | grep -E "^test result" | head -1)
git checkout -q -- . ; rm -rf tests
fi
echo "demo on clean tree : $clean"
echo "suite with mutation: $suite"
echo "demo with mutation : $mutated"
cd /repo && git status --short | grep -v '^??' | head -3
git -C /repo apply $M/$X.patch.diff || { echo "PATCH DOES NOT APPLY TO /repo"; exit 2; }
declare -A RES
for c in $CHECKS; do
  out=$(cd /verif && ./vcheck $c quick 2>&1 | grep -v "^KNOWN-FINDING" | head -4 | cut -c1-400)
  echo "--- ./vcheck $c quick:"; echo "$out"
  RES[$c]=$(echo "$out" | head -1 | cut -c1-160)
done
git -C /repo checkout -- .
D=/verif/seeded/$ID-$AS; mkdir -p $D
cp $M/$X.patch.diff $D/patch.diff; cp $M/$X.demo.rs $D/demo.rs
python3 - "$M/$X.meta.json" "$D/meta.json" "$clean" "$suite" "$mutated" "$(for c in $CHECKS; do echo "$c => ${RES[$c]}"; done)" <<'PY'
import json,sys
src,dst,clean,suite,mut,checks=sys.argv[1:7]
try: m=json.load(open(src))
except Exception: m={}
m["confirmed_by_harness_author"]={"demo_on_clean_tree":clean,"unit_suite_with_change":suite,"demo_with_change":mut,
  "how":"applied patch.diff in a scratch worktree of /repo HEAD, ran `cargo test --offline --lib` and the demo as tests/demo_x.rs; then `git -C /repo apply`, ran the listed checks, `git -C /repo checkout -- .`"}
m["checks_run"]=[l for l in checks.splitlines() if l.strip()]
json.dump(m,open(dst,"w"),indent=1)
PY
