#!/usr/bin/env python3
"""Fills the generated blocks of DESIGN.md (seeded-change matrix) from /verif/seeded/*/meta.json."""
import json, glob, os, re
rows=[]
for d in sorted(glob.glob("/verif/seeded/*/")):
    name=os.path.basename(d.rstrip("/"))
    try: m=json.load(open(d+"meta.json"))
    except Exception: continue
    what=(m.get("what_it_breaks") or "").replace("\n"," ").replace("|","/")
    needs=(m.get("needs_to_manifest") or "").replace("\n"," ").replace("|","/")
    first=" / ".join(m.get("checks_run",[]))
    latest=m.get("latest_check","")
    def verdict(t):
        if "Aborting shrinking" in t and "VIOLATION" not in t:
            # (the first line kept of that run was proptest's notice that shrinking of the failure was cut off)
            return "caught"
        if "VIOLATION" in t: 
            sig=re.search(r"signature: (.*?)(  |$)", t)
            return "caught" + (f" (`{sig.group(1).strip()[:70]}`)" if sig else "")

        if t.startswith("OK") or "=> OK" in t: return "MISSED"
        return t[:40] or "?"
    last = verdict(latest) if latest else ''
    if m.get("caught_by") and not last.startswith("caught"):
        last = "caught by " + m["caught_by"].split(":")[0].split(" (")[0] + " (not by this property's own check)"
    if m.get("not_detected") and not last.startswith("caught"):
        last = "**not detected** (" + m["not_detected"].split(": the change only shows on a path that the harness does not drive - ")[-1][:110] + ")"
    if m.get("neutralised"):
        last = "no longer a defect: " + m["neutralised"].split(":")[0]
    rows.append(f"| {name} | {what[:170]} | {needs[:150]} | {verdict(first)} | {last} |")
table="| change | what it breaks | needs, to manifest | first contact | after strengthening (latest run) |\n|---|---|---|---|---|\n"+"\n".join(rows)
p="/verif/DESIGN.md"; s=open(p).read()
b="<!-- BEGIN GENERATED: seeded -->"; e="<!-- END GENERATED: seeded -->"
i=s.index(b)+len(b); j=s.index(e)
s=s[:i]+"\n"+table+"\n"+s[j:]
open(p,"w").write(s)
print(len(rows),"seeded changes listed")
