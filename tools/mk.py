"""Helpers to write replay files by hand (JSON forms of the harness's serde types)."""
import json, subprocess, os
ORDER=["Join","Where","GroupBy","Having","Limit"]
def col(n): return {"Col": n}
def i(v): return {"Int": v} if v >= 0 else {"Neg": {"Int": -v}}
def r(s): return {"Real": s}
def s(v): return {"Str": v}
def b(op,l,rr): return {"Bin":[op,l,rr]}
def call(n,*a): return {"Call":[n,list(a)]}
def cast(e,t): return {"Cast":[e,t]}
def agg(n,*a,distinct=False): return {"Agg":[n,distinct,list(a)]}
NULL="Null"; TRUE="True"; FALSE="False"; STAR="Star"
def sel(items, filt=None, frm="t", **kw):
    d={"distinct":False,"items":[[e,a] for e,a in items],"from":frm,"filename":None,"join":None,"filter":filt,"group_by":[],"having":None,"limit":None,"order":ORDER,"semicolon":False}
    d.update(kw); return d
def table(cols, name="t", json_=True, not_null=None): return {"name":name,"json":json_,"cols":[[n,t] for n,t in cols],"not_null":not_null}
def write(prop, name, note, case):
    os.makedirs(f"/verif/replays/{prop}", exist_ok=True)
    json.dump({"property":prop,"note":note,"case":case}, open(f"/verif/replays/{prop}/{name}.json","w"), indent=1)
def commit(grep): return subprocess.run(["git","-C","/repo","log","--format=%h","--grep="+grep,"-1"],capture_output=True,text=True).stdout.strip()
def add_finding(fid, props, sig, witness, grep, what, status="fixed"):
    k=json.load(open("/verif/known_findings.json"))
    k["findings"]=[f for f in k["findings"] if f["id"]!=fid]
    cm=commit(grep) if grep else None
    e={"id":fid,"properties":props,"status":status,"signature":sig,"witness":witness,"what":(f"fixed: property={props[0]} {cm} {what}" if status=="fixed" else what)}
    if cm: e["commit"]=cm
    k["findings"].append(e)
    json.dump(k,open("/verif/known_findings.json","w"),indent=1)
