#!/bin/bash
# usage: tools/seed_confirm.sh <worktree> [A B]
# The confirmation half of seed_eval.sh for one scratch worktree holding MUTATION/{A,B}.*: the demo passes on the clean
# tree, the unit suite passes with the change, the demo fails with the change. Writes MUTATION/<X>.confirm (three lines)
# which seed_eval.sh picks up; several worktrees can be confirmed in parallel.
WT=$1; shift; XS=${@:-A B}; M=$WT/MUTATION
export CARGO_NET_OFFLINE=true
cd $WT || exit 2
for X in $XS; do
  FEAT=""; grep -q verif_hooks $M/$X.demo.rs 2>/dev/null && FEAT="--features verif_hooks"
  git checkout -q -- . ; rm -rf tests; mkdir -p tests; cp $M/$X.demo.rs tests/demo_x.rs
  clean=$(cargo test --offline $FEAT --test demo_x 2>&1 | grep -E "^test result" | head -1)
  git apply $M/$X.patch.diff || { echo "$WT $X: PATCH DOES NOT APPLY"; continue; }
  suite=$(cargo test --offline --lib 2>&1 | grep -E "^test result" | head -1)
  mutated=$(cargo test --offline $FEAT --test demo_x 2>&1 | grep -E "^test result" | head -1)
  git checkout -q -- . ; rm -rf tests
  printf '%s\n%s\n%s\n' "$clean" "$suite" "$mutated" > $M/$X.confirm
  echo "$WT $X: clean[$clean] suite[$suite] mutated[$mutated]"
done
