#!/bin/bash
# Runs every registered quick check on the current (clean) tree so that the committed evidence files come from /verif
# run against /repo itself, then validates MANIFEST.json and the evidence files against the schemas.
cd /verif || exit 2
[ -n "$(git -C /repo status --short | grep -v '^??')" ] && { echo "/repo has uncommitted changes"; exit 2; }
bad=0
for p in $(jq -r '.checks[].property_id' MANIFEST.json); do
  out=$(./vcheck "$p" quick 2>&1); rc=$?
  echo "$out" | grep -E "^(OK|VIOLATION|KNOWN-FINDING)" | cut -c1-160
  [ $rc -ne 0 ] && { echo "$p: exit $rc"; bad=1; }
done
python3-vt tools/validate.py | grep -v "^ok" && bad=1
exit $bad
