#!/usr/bin/env python3
import json, glob, sys, jsonschema
ms = json.load(open("/root/.vp/MANIFEST.schema.json")); es = json.load(open("/root/.vp/EVIDENCE.schema.json"))
m = json.load(open("/verif/MANIFEST.json")); jsonschema.validate(m, ms)
bad = 0
for c in m["checks"]:
    f = c["evidence_file"]
    try:
        jsonschema.validate(json.load(open(f)), es); print("ok     ", f)
    except Exception as e:
        bad += 1; print("INVALID", f, str(e).splitlines()[0])
sys.exit(1 if bad else 0)
