#!/usr/bin/env python3
"""Writes /verif/MANIFEST.json from the table below (kept here so the manifest stays consistent and valid)."""
import json, os, subprocess, sys

HERE = os.path.dirname(os.path.dirname(os.path.abspath(__file__)))

# id -> (built, technique, level text, level note, design ref)
CHECKS = {
 "C13": (True,
   "property-based testing: metamorphic parse equality (minimal vs fully parenthesised text), proptest + bounded-exhaustive operator-pair table",
   "Generated-input search: random expression ASTs printed with minimal parentheses must parse to the same Statement (Debug) as their fully parenthesised text; the table of all operator pairs x shapes is enumerated completely. Exploration, not proof: absence of a violation beyond the enumerated pairs is sampled.",
   "Debug(Statement) is structural; the fully parenthesised text leaves the parser no grouping freedom; reference grammar = the precedence list in the property statement.",
   "DESIGN.md §3 C13"),
 "C20": (True,
   "property-based testing: metamorphic parse equality under layout variants (case, whitespace, comments, semicolon, all clause permutations), proptest",
   "Generated-input search: valid statements as token lists are re-laid out at true token boundaries; every variant must parse to the same Statement (Debug) as the canonical text and carry the intended literal strings; per case all permutations of the present clauses are enumerated. Exploration, not proof.",
   "Debug(Statement) is structural; the generator's token boundaries are those of the documented syntax; two-character operators are <= >= != => :: and --.",
   "DESIGN.md §3 C20"),
 "C14": (True,
   "property-based testing / fuzz-style totality check: eight input generators (Unicode noise, token soups, mutated and truncated valid statements - also with identifiers whose case mapping changes length -, all prefixes, deep nesting, invalid-by-construction definitions, long operator chains parsed in a child process, definitions whose patterns are heavy only together), proptest, supervised child process",
   "Generated-input search for panics, aborts, hangs, error locations outside the text and unproducible 'near' excerpts; invalid-by-construction definitions must be rejected. Every character prefix of the generated valid statements is tried. The search runs in a supervised child so that stack overflows and hangs are observed and re-judged in isolation. Exploration, not proof.",
   "Documented nesting bound of the check: depth 200 on an 8 MiB stack. A time-out is reported as inconclusive (exit 2) unless it reproduces twice in isolation. One recorded known finding (F55: operator chains of thousands of terms overflow the stack) is excluded by construction (chains capped at 150 terms) and replayed as a witness in a child process.",
   "DESIGN.md §3 C14"),
 "C17": (True,
   "property-based testing: round trip (rows -> real OutputPrinter -> independent decoder -> rows) over generated ResultRows in text/json/csv",
   "Generated-input search: arbitrary result rows of every type are printed through the real OutputPrinter into a capturing Printer and decoded again by the harness's own JSON reader / field splitter; records must be one per row, in order, JSON values exact (INT digits, REAL bit-exact), CSV header once and one field per column, text `name: value` pairs in column order. Exploration, not proof.",
   "Field-level checks for text/CSV only for delimiter-free values (as the property states); TZ=UTC; the decoder shares no code with serde_json.",
   "DESIGN.md §3 C17"),
 "C10": (True,
   "property-based testing over generated schedules (stateful: content x reader-poll placement x idle polls x buffer size x start position), harness-owned schedule via the follow_idle hook; bounded-exhaustive small contents",
   "Generated-history search: the hook fires exactly where the reader has observed EOF without a complete line and the harness performs the writer's next append there, so every placement of appends relative to reader observations is reachable deterministically; delivered lines must equal the content's newline-terminated lines, once, in order. All poll subsets for all contents up to 5/8 bytes over {a, é, €, newline} are enumerated. Exploration, not proof; a truly parallel writer is not run (see level_note).",
   "Equivalence assumption: for a sequential reader of an append-only file only the placement of appends relative to the reader's EOF observations matters. The seek done by FollowFileExecutor::new is replicated by the harness at iterator level.",
   "DESIGN.md §3 C10"),
 "C12": (True,
   "property-based testing: reference model of line splitting / file order vs the real batch executor; metamorphic multi-file = concatenation; per-case enumeration of all splits into files",
   "Generated-input search: byte contents built from line bodies and terminators are fed through the real FileExecutor (SELECT input, COUNT/ARRAY_AGG, joined-file loader, selective table) and the transcript of lines the query saw is compared with a model line splitter; total_lines is compared too; inputs of up to 6 lines are split into files in all 2^(n-1) ways. Exploration, not proof.",
   "The all-admitting table '(.*)' makes query output a transcript of presented lines; a CR before LF is accepted kept or stripped.",
   "DESIGN.md §3 C12"),
 "C03": (True,
   "property-based testing: differential against an independent reference evaluator (value / error / unspecified) over generated typed tables, rows and SELECT/WHERE statements",
   "Generated-input search: typed expressions (all operators, IN, CASE, casts, EXTRACT, subscripts, README functions; ~4% ill-typed nodes) are evaluated by the real FileExecutor (JSON output) and by a reference evaluator written from the property statement and README on the rows the real extract produced; records, their order, column names and the error/no-error outcome per row are compared. Sub-cases the documents do not fix are counted as unspecified and not judged. Exploration, not proof.",
   "Trusted base of the model: Rust std float parsing and case mapping, the regex crate, chrono calendar arithmetic; TZ=UTC; expressions rendered fully parenthesised.",
   "DESIGN.md §3 C03, Appendix A"),
 "C04": (True,
   "property-based testing: differential against a naive group-then-fold reference executor over generated aggregate statements and data",
   "Generated-input search: aggregate statements (every aggregate, wrappers, 0-2 GROUP BY elements, WHERE, HAVING incl. hidden aggregates) over small-domain data with NULL-heavy columns run through the real FileExecutor; the printed table is compared row by row and cell by cell with a filter / bucket / order / fold reference computed from the rows the real extract produced. Exploration, not proof. One recorded known finding (F09b) is excluded by construction and replayed as a witness.",
   "PERCENTILE judged by a validity predicate, AVG(INT) truncated-or-real, STDDEV/VARIANCE population form with tolerance; documents-unspecified sub-cases counted and not judged.",
   "DESIGN.md §3 C04, Appendix A"),
 "C05": (True,
   "property-based testing: differential against a nested-loop reference join feeding the C03/C04 reference executors, over generated table pairs, files and statements",
   "Generated-input search: two tables and files with duplicated, NULL and one-sided keys, name clashes, INNER/OUTER, ON in either order, SELECT or aggregate statements; the real FileExecutor output is compared with nested-loop pairing (reference equality on non-NULL keys, OUTER adds a NULL-right row) followed by the reference evaluators; missing file / missing join column must be errors. Exploration, not proof.",
   "Join keys of one type on both sides (mixed numeric keys, -0.0, NaN belong to C16); OUTER JOIN under an aggregate not judged.",
   "DESIGN.md §3 C05"),
 "C06": (True,
   "property-based testing: metamorphic relation output(base) = output(base + non-admitted lines), batch executor and per-line engine, noise built non-admitted by construction",
   "Generated-input search: statements of every kind (plain, DISTINCT, LIMIT, aggregate, HAVING, join) over generated tables; noise lines that by the property's own admission rule cannot become rows are inserted at generated positions in the queried input and in the joined file; batch output (bytes) and per-line transcript must not change. Exploration, not proof.",
   "Noise is constructed from the admission rule (no non-NULL column / NULL in the NOT NULL column), never by asking the implementation.",
   "DESIGN.md §3 C06"),
 "C07": (True,
   "property-based testing: metamorphic relation LIMIT n = first n rows of the unlimited run, enumerated for every n per case, plus consumption accounting via per-line attribution",
   "Generated-input search: statements without LIMIT (plain, DISTINCT, join fan-out, aggregates) over inputs split into 1-3 files; for every n in 0..=rows+2 the LIMIT n run must print exactly the first n records of the unlimited run and consume exactly the lines up to the one producing the n-th row (0 for n = 0; everything for aggregates). Exploration over statements and data, exhaustive over n within each case.",
   "Consumption is read from statistics().total_lines; attribution of rows to lines by feeding the unlimited statement line by line through ExecutionEngine.",
   "DESIGN.md §3 C07"),
 "C08": (True,
   "property-based testing: metamorphic relation DISTINCT(Q) = first-occurrence dedup of Q under reference tuple equality, batch and every per-line refresh",
   "Generated-input search: DISTINCT statements (select lists, `*`, aggregate DISTINCT with and without HAVING) over rows drawn from a small pool of tuples with near-duplicates (one column changed, NULL vs value, -0.0 vs 0.0, recurrence after gaps); the DISTINCT output must equal the first-occurrence dedup of the same statement without DISTINCT, for the batch run and for each refresh of the per-line path. Exploration, not proof.",
   "Tuple equality of the oracle: NULL = NULL, numbers by value; tuples with non-finite REALs (NaN, inf: both print as null) are left to C16.",
   "DESIGN.md §3 C08"),
 "C11": (True,
   "property-based testing over generated line histories: incremental engine (update+result per line) vs fresh batch run for every prefix k",
   "Generated-history search: a long-lived ExecutionEngine is fed line by line as follow mode does; for every prefix k the shown table (aggregate) or the emitted rows (select) are compared, as printed JSON records, with a fresh FileExecutor batch run over exactly the first k lines. Exploration over statements and histories, exhaustive over k within each case.",
   "Statements without LIMIT and without join (follow mode supports no join); the incremental table is rendered by the real OutputPrinter.",
   "DESIGN.md §3 C11"),
 "C15": (True,
   "property-based testing: metamorphic relations (permutation invariance of the result table; key-wise combination of the results over every cut of the input)",
   "Generated-input search: order-insensitive aggregate statements over small-domain data with exactly representable REAL sums; the printed table must be identical for 3 permutations of the lines, and for every cut of the input the groups of the whole must be the union of the parts' groups with COUNT/SUM adding and MIN/MAX/BOOL_AND/BOOL_OR combining. Exploration over statements and data, exhaustive over cut points within each case.",
   "Cut relation only for statements without HAVING; AVG/STDDEV/PERCENTILE/COUNT(DISTINCT) are checked by permutation only. One recorded known finding (F56: the overflow check of the running INT sum makes the outcome depend on the line order) is excluded by construction (no INT values next to the 64-bit limits) and replayed as a witness.",
   "DESIGN.md §3 C15"),
 "C16": (True,
   "property-based testing of algebraic laws (trichotomy, antisymmetry, reflexivity, transitivity, agreement of =, <, hashing consumers) observed through queries; bounded-exhaustive over special-value pools",
   "Generated + enumerated search: pairs/triples from per-type pools containing every special value are put into rows and the comparison facts read through WHERE-style expressions; GROUP BY, DISTINCT, COUNT(DISTINCT), MIN/MAX, PERCENTILE(0/1), JOIN, IN and array_unique must agree with the same = and <; non-NaN values are also checked against the reference order; INT x REAL by numeric value. All pool pairs (quick) / triples (thorough) are enumerated.",
   "Laws are observed behaviourally (a repair may live in Value or in its consumers); any total order is accepted for NaN; TZ=UTC.",
   "DESIGN.md §3 C16"),
 "C18": (True,
   "property-based testing: metamorphic byte-equality of output across repeated in-process executions (fresh hash seeds), fresh child processes and definition files with extra / reordered tables",
   "Generated-input search: statements that push many items through the hash containers on the output path (`*` over 8-12 columns, up to 30 groups with 4-6 aggregates, joins with many partners and `*` over both tables, HAVING with hidden aggregates); text and JSON output must be byte-identical across 8 repetitions with 4 definition variants and, for a slice of cases, 4 fresh processes. Exploration; seed independence is sampled with a size argument for the miss probability.",
   "Every HashMap::new() draws a fresh RandomState also inside one process; now() is never generated.",
   "DESIGN.md §3 C18"),
 "C19": (True,
   "property-based testing over schedules: every interrupt point (each file_line / join_line probe, each printed record, each followed line) of generated statements and inputs, harness-owned flag clearing via the probe hook",
   "Generated + per-case exhaustive search: for each generated statement and input the running flag is cleared at every probe event and after every printed record; execute() must be Ok, no input line may be consumed afterwards (<= 10 joined-file lines while loading), printed output must be a prefix of the uninterrupted output and an interrupted aggregate must print the table of exactly the consumed lines; a slice of cases runs the real FollowFileExecutor in a child process.",
   "The signal handler in main.rs and wall-clock promptness are not exercised; the property quantifies over flag-clearing points, which the probes enumerate.",
   "DESIGN.md §3 C19"),
 "C01": (True,
   "property-based testing: differential against a reference extraction model over generated CREATE TABLE texts (regex ASTs, split, inline, every type/modifier) and lines sampled from the regex AST then mutated",
   "Generated-input search: definitions are built from a structured spec and parsed by the real parser; lines are sampled from the pattern's own regex AST with class-specific edge values, then mutated; every column of TableDefinition::extract is compared with the model (leftmost match via the regex crate, own literal recognisers, arrays / timestamps position by position, DEFAULT / TRIM / NOT NULL / BOOLEAN-existence), and `SELECT *` output for a slice of lines. Exploration, not proof.",
   "Trusted: regex crate (leftmost match, split), chrono (calendar validity), std float parsing. Gray literals (inf/nan/overflowing exponents, absent timestamp parts, chrono leap second) are not judged. TZ=UTC.",
   "DESIGN.md §3 C01"),
 "C02": (True,
   "property-based testing: differential against a reference JSON path walk + typing model, plus the metamorphic column-independence relation, over generated definitions and documents",
   "Generated-input search: JSON-path columns drawn from a generated document's own paths (then mutated) with natural and deliberately wrong types, CONVERT / DEFAULT / NOT NULL, mixed with regex columns; lines vary the document (fresh leaves incl. numbers beyond i64/f64, dropped and duplicated keys, invalid and non-JSON text). Every extracted column is compared with the model; each column must keep its value when the other columns are removed from the definition. Exploration, not proof.",
   "JSON validity and the document tree come from the harness's own reader (numbers kept as text); REAL within 2 ULP; integral-valued reals for INT and documents with numbers beyond f64 are not judged. Two recorded known findings (F39: documents nested 128 or more levels deep are read as not-JSON; F63: an object keyed by serde_json's private number marker) are excluded by construction and replayed as witnesses.",
   "DESIGN.md §3 C02, §7.2"),
 "C09": (True,
   "property-based testing / fuzz-style totality search with a semantic oracle: hazard-dialled statement and data generators x arbitrary input bytes x output formats x 6 time zones (one supervised child process per zone); exact-or-error judging of INT results",
   "Generated-input search for panics, aborts and hangs of the batch executor and the per-line engine on accepted (definition, query) pairs from the C01-C05 generators with extremes, zero divisors, huge subscripts, NaN/inf, DST-gap timestamps, and inputs mutated into arbitrary bytes; the build has overflow checks on, and INT results of select statements are additionally judged exact-or-error by the reference evaluator so that non-panicking wraps (`as` casts, wrapping ops) are seen. Each zone runs in its own supervised child; a crash is re-judged in isolation. Exploration, not proof.",
   "Time zones: UTC, Europe/Stockholm, America/Sao_Paulo, Pacific/Apia, Australia/Lord_Howe, America/Havana (tzdata of the sandbox). A time-out is inconclusive unless it reproduces twice in isolation.",
   "DESIGN.md §3 C09"),
}

NOT_YET = {
}

def main():
    hooks_commits = subprocess.run(["git", "-C", "/repo", "log", "--format=%H", "--grep=^verif hooks"], capture_output=True, text=True).stdout.split()
    props = [json.loads(l)["id"] for l in open(os.path.join(HERE, "properties.jsonl"))]
    checks = []
    na = []
    for pid in props:
        info = CHECKS.get(pid)
        if info and info[0]:
            _, technique, text, note, ref = info
            if pid not in ("C14", "C09"):
                technique += "; thorough tier adds coverage-guided fuzzing (libFuzzer) over the generator's choice tape with the same oracle in the target"
                text += " The thorough tier additionally runs a libFuzzer campaign (8 processes) whose input bytes are the choice tape of the same generator and whose target carries the same oracle; artifacts are re-judged by the strict replay path."
            checks.append({
                "property_id": pid,
                "quick_cmd": f"./vcheck {pid} quick",
                "thorough_cmd": f"./vcheck {pid} thorough",
                "evidence_file": f"/verif/evidence/{pid}.json",
                "replay_cmd_template": f"./vcheck {pid} --replay {{path}}",
                "engine": "vcheck",
                "level_claimed": {"category": "exploration", "text": text, "design_ref": ref},
                "level_note": note,
                "technique": technique,
            })
        else:
            na.append({"property_id": pid, "reason": NOT_YET.get(pid, "check not built yet in this round (planned in DESIGN.md §3; property-based testing applies)")})
    manifest = {
        "version": 1,
        "setup_cmd": "./vcheck --setup",
        "hooks": {
            "guard": "cargo feature `verif_hooks` of the sqlgrep crate (default off)",
            "enable": "the harness crate /verif/harness depends on sqlgrep with features=[\"verif_hooks\"] (path = /repo); ./vcheck rebuilds it from /repo's working tree on every call",
            "baseline_off_cmd": "cd /repo && cargo test --workspace --no-fail-fast --offline",
            "source_commits": hooks_commits,
            "add_only": True,
        },
        "engines": [
            {"name": "vcheck", "path": "/verif/harness", "serves_properties": [c["property_id"] for c in checks],
             "kind_free_text": "Rust binary: proptest-driven choice-tape generators (16 shards, seeded, shrinking), reference models / metamorphic relations as oracles, bounded-exhaustive sub-spaces, supervised child for crash/hang, replay + known-findings handling"},
            {"name": "vcheck-fuzz", "path": "/verif/fuzz", "serves_properties": [c["property_id"] for c in checks],
             "kind_free_text": "cargo-fuzz / libFuzzer targets (thorough tier, started by ./vcheck): parse_total (C14, bytes = text), exec_total (C09) and tape_prop (all other properties: bytes = choice tape of the property's generator, VCHECK_FUZZ_PROP selects it); the property's oracle runs inside the target, artifacts are converted to replay files and re-judged"},
        ],
        "checks": checks,
        "notes": "Every check: exit 0 = held on everything explored; exit 1 + `VIOLATION property=<id> replay=<path>`; exit 2 = build problem / inconclusive (never a verdict). VERIF_SEED selects the PRNG seed. Known findings: /verif/known_findings.json.",
        "not_applicable": na,
    }
    with open(os.path.join(HERE, "MANIFEST.json"), "w") as f:
        json.dump(manifest, f, indent=1)
        f.write("\n")
    try:
        import jsonschema
        jsonschema.validate(manifest, json.load(open("/root/.vp/MANIFEST.schema.json")))
        print("MANIFEST.json valid;", len(checks), "checks,", len(na), "not claimed")
    except ImportError:
        print("MANIFEST.json written (jsonschema not importable here)")

if __name__ == "__main__":
    main()
