#!/bin/bash
# Re-runs, for every kept seeded change, the quick check of its property against the change applied to /repo
# (git apply ... run ... git checkout -- .) and records the outcome in seeded/<id>-<x>/meta.json ("latest_check").
cd /verif || exit 2
ONLY="$1"
for d in seeded/*/; do
  name=$(basename "$d"); id=${name%%-*}
  [ -n "$ONLY" ] && [ "$ONLY" != "$name" ] && [ "$ONLY" != "$id" ] && continue
  [ -n "$(git -C /repo status --short | grep -v '^??')" ] && { echo "/repo is dirty"; exit 2; }
  git -C /repo apply "/verif/${d}patch.diff" || { echo "$name: patch does not apply"; continue; }
  out=$(./vcheck "$id" quick 2>&1 | grep -v "^KNOWN-FINDING" | grep -E "^(VIOLATION|OK|generator|vcheck)|signature:" | head -2 | tr '\n' ' ' | cut -c1-300)
  git -C /repo checkout -- .
  echo "$name: $out"
  python3 - "/verif/${d}meta.json" "$out" <<'PY'
import json,sys
p,out=sys.argv[1:3]
m=json.load(open(p)); m["latest_check"]=out.strip(); json.dump(m,open(p,"w"),indent=1)
PY
done
