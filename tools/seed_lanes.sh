#!/bin/bash
# Re-runs the quick check of every kept seeded change in parallel "lanes": each lane is a scratch worktree of /repo
# (at HEAD) plus a scratch copy of /verif whose harness is pointed at that worktree, all under /tmp/scratch/lanes and
# removed afterwards. /repo itself is not touched (first contact and the re-test after strengthening of every change
# were done against /repo itself with tools/seed_eval.sh; this script only refreshes the whole matrix quickly).
# usage: [VERIF_SEED=n LANES_NO_WRITE=1] tools/seed_lanes.sh [lanes=4] [ID|name filter]
LANES=${1:-4}; ONLY="$2"
BASE=/tmp/scratch/lanes
cd /verif || exit 2
names=(); for d in seeded/*/; do n=$(basename "$d"); id=${n%%-*}; [ -n "$ONLY" ] && [ "$ONLY" != "$n" ] && [ "$ONLY" != "$id" ] && continue; names+=("$n"); done
mkdir -p "$BASE"
lane() {
  i=$1; L="$BASE/$i"
  rm -rf "$L/verif"; git -C /repo worktree remove --force "$L/repo" 2>/dev/null; mkdir -p "$L"
  git -C /repo worktree add -q --detach "$L/repo" HEAD || return
  rsync -a --exclude harness/target --exclude fuzz/target --exclude out --exclude .git /verif/ "$L/verif/"
  sed -i "s#path = \"/repo\"#path = \"$L/repo\"#" "$L/verif/harness/Cargo.toml"
  k=0
  for n in "${names[@]}"; do
    k=$((k+1)); [ $(( (k-1) % LANES )) -ne "$i" ] && continue
    id=${n%%-*}
    if ! git -C "$L/repo" apply "/verif/seeded/$n/patch.diff" 2>/dev/null; then
      # /repo has moved on (fix: commits): rebase the change with a three-way merge and keep the rebased patch
      if git -C "$L/repo" apply --3way "/verif/seeded/$n/patch.diff" >/dev/null 2>&1 && [ -z "$(git -C "$L/repo" diff --name-only --diff-filter=U)" ]; then
        [ -f "/verif/seeded/$n/patch.original.diff" ] || cp "/verif/seeded/$n/patch.diff" "/verif/seeded/$n/patch.original.diff"
        git -C "$L/repo" reset -q; git -C "$L/repo" diff > "/verif/seeded/$n/patch.diff"
        echo "$n: (patch rebased onto the current tree)"
      else
        git -C "$L/repo" reset -q --hard; echo "$n: patch does not apply (manual rebase needed)"; continue
      fi
    fi
    out=$("$L/verif/vcheck" "$id" quick 2>&1 | grep -v "^KNOWN-FINDING" | grep -E "^(VIOLATION|OK|generator|vcheck)|signature:|reproducible" | head -2 | tr '\n' ' ' | sed "s#$L/verif#/verif#g" | cut -c1-300)
    git -C "$L/repo" checkout -- .
    echo "$n: $out"
    [ -n "$LANES_NO_WRITE" ] && continue   # (robustness runs under another VERIF_SEED: report only)
    python3 - "/verif/seeded/$n/meta.json" "$out" <<'PY'
import json,sys
p,out=sys.argv[1:3]
m=json.load(open(p)); m["latest_check"]=out.strip(); json.dump(m,open(p,"w"),indent=1)
PY
  done
  git -C /repo worktree remove --force "$L/repo" 2>/dev/null; rm -rf "$L"
}
for i in $(seq 0 $((LANES-1))); do lane $i & done
wait
git -C /repo worktree prune
rmdir "$BASE" 2>/dev/null
echo "lanes done"
