//! C14, coverage-guided: any text yields a statement or a located error (same in-target predicate as the proptest check).
#![no_main]
use libfuzzer_sys::fuzz_target;

fuzz_target!(|data: &[u8]| {
    let text = String::from_utf8_lossy(data);
    if let Err(f) = vcheck::props::c14::check_text(&text) {
        panic!("C14 oracle: {} :: {}", f.signature, f.message);
    }
});
