//! Any property, coverage-guided over the choice tape: the input bytes are the tape of the property's generator
//! (VCHECK_FUZZ_PROP selects the property), so libFuzzer mutates structured cases and the property's own oracle
//! (reference model, metamorphic relation, invariant) judges every execution.
#![no_main]
use libfuzzer_sys::fuzz_target;
use vcheck::props;
use vcheck::run::fuzz_one;

fn prop_id() -> &'static str {
    static ID: std::sync::OnceLock<String> = std::sync::OnceLock::new();
    ID.get_or_init(|| std::env::var("VCHECK_FUZZ_PROP").unwrap_or_else(|_| "C03".to_string())).as_str()
}

fuzz_target!(|data: &[u8]| {
    match prop_id() {
        "C01" => fuzz_one(&props::c01::C01, data),
        "C02" => fuzz_one(&props::c02::C02, data),
        "C03" => fuzz_one(&props::c03::C03, data),
        "C04" => fuzz_one(&props::c04::C04, data),
        "C05" => fuzz_one(&props::c05::C05, data),
        "C06" => fuzz_one(&props::c06::C06, data),
        "C07" => fuzz_one(&props::c07::C07, data),
        "C08" => fuzz_one(&props::c08::C08, data),
        "C09" => fuzz_one(&props::c09::C09, data),
        "C10" => fuzz_one(&props::c10::C10, data),
        "C11" => fuzz_one(&props::c11::C11, data),
        "C12" => fuzz_one(&props::c12::C12, data),
        "C13" => fuzz_one(&props::c13::C13, data),
        "C14" => fuzz_one(&props::c14::C14, data),
        "C15" => fuzz_one(&props::c15::C15, data),
        "C16" => fuzz_one(&props::c16::C16, data),
        "C17" => fuzz_one(&props::c17::C17, data),
        "C18" => fuzz_one(&props::c18::C18, data),
        "C19" => fuzz_one(&props::c19::C19, data),
        "C20" => fuzz_one(&props::c20::C20, data),
        other => panic!("unknown property {}", other),
    }
});
