//! C09, coverage-guided over the choice tape: the bytes are the tape of the C09 generator, so libFuzzer mutates
//! structured (definition, query, input) triples rather than dying in input validation.
#![no_main]
use libfuzzer_sys::fuzz_target;
use vcheck::run::{Obs, Property};

fuzz_target!(|data: &[u8]| {
    let words = vcheck::props::c09::words_from_bytes(data);
    let ctx = vcheck::run::Ctx::standalone("fuzz");
    let mut tape = vcheck::tape::Tape::new(&words);
    let case = vcheck::props::c09::C09.generate(&mut tape, &ctx);
    let mut obs = Obs::default();
    if let Err(f) = vcheck::props::c09::C09.check(&case, &ctx, &mut obs) {
        panic!("C09 oracle: {} :: {}", f.signature, f.message);
    }
});
